package main

import (
	"fmt"
	"go/token"
	"go/types"
	"strings"

	"golang.org/x/tools/go/ssa"
)

var safetyTags = []string{"C03", "safety"}

func (fr *frame) safetyTags() []string {
	// runtime-panic freedom belongs to C03 (parser, lexer, token, char) or C04 (package ast)
	if fr.fn.Pkg != nil && fr.fn.Pkg.Pkg.Name() == "ast" {
		return []string{"C04", "safety"}
	}
	return safetyTags
}

func (fr *frame) exec(instr ssa.Instruction, st *State) {
	fx := fr.fx
	s := fx.s
	g := fx.g
	pos := fx.posOf(instr.Pos())
	switch x := instr.(type) {
	case *ssa.DebugRef:
		if id, ok := x.Expr.(interface{ String() string }); ok && !x.IsAddr {
			_ = id
		}
		if obj := x.Object(); obj != nil {
			if _, isVar := obj.(*types.Var); isVar {
				if x.IsAddr {
					// address-taken variable (captured by a closure, named result): the name denotes
					// the content of its cell
					if al, ok := x.X.(*ssa.Alloc); ok {
						if fr.cells == nil {
							fr.cells = map[string]*ssa.Alloc{}
						}
						fr.cells[obj.Name()] = al
					}
				} else if _, known := fr.vals[x.X]; known || isConstLike(x.X) {
					fr.names[obj.Name()] = append(fr.names[obj.Name()], x.X)
				}
			}
		}
	case *ssa.Alloc:
		t := x.Type().Underlying().(*types.Pointer).Elem()
		a := s.fresh("alloc!"+x.Comment, SInt)
		s.assert(and(app(">", a, "1"), eq(app("birth", a), st.now)))
		st.now = add1(st.now)
		p := PtrV{Addr: a, HT: g.heapTypeName(t), Elem: t, Local: x}
		if _, isArr := t.Underlying().(*types.Array); isArr {
			p.HT = fmt.Sprintf("array<%s>", typeTagName(t))
		}
		fx.storeVal(st, p, g.zero(t))
		fr.foldWF(st, p.HT, p.Addr)
		fr.foldPos(st, p.HT, p.Addr)
		fr.foldPrec(st, p.HT, p.Addr)
		fr.vals[x] = p
		fx.noteObj(p)
		fx.noteNodeRefs(p, x.Type())
		if x.Comment != "" && !strings.ContainsAny(x.Comment, " .()") {
			// a named local that lives in a cell (captured by a closure, named result, address taken)
			if fr.cells == nil {
				fr.cells = map[string]*ssa.Alloc{}
			}
			if _, dup := fr.cells[x.Comment]; !dup {
				fr.cells[x.Comment] = x
			}
		}
	case *ssa.FieldAddr:
		p := fr.val(x.X).(PtrV)
		if p.Local == nil {
			s.oblig("nil", "", fr.safetyTags(), st.reach, not(eq(p.Addr, "0")), pos, "nil dereference: "+x.String())
		}
		fr.unfoldWF(st, p)
		fr.unfoldPos(st, p)
		stt := structOf(p.Elem)
		f := stt.Field(x.Field)
		fr.vals[x] = PtrV{Addr: p.Addr, HT: p.HT, Path: p.Path + "." + f.Name(), Elem: f.Type(), Local: p.Local}
	case *ssa.Field:
		sv := fr.val(x.X).(StructV)
		fr.vals[x] = sv.F[x.Field]
	case *ssa.IndexAddr:
		idx := fr.val(x.Index).(Sc).T
		switch b := fr.val(x.X).(type) {
		case PtrV: // pointer to array
			at := b.Elem.Underlying().(*types.Array)
			s.oblig("bounds", "", fr.safetyTags(), st.reach, and(app("<=", "0", idx), app("<", idx, num(at.Len()))), pos, x.String())
			fr.vals[x] = ElemPtrV{Base: b, Idx: idx, Elem: at.Elem()}
		case SliceV:
			s.oblig("bounds", "", fr.safetyTags(), st.reach, and(app("<=", "0", idx), app("<", idx, b.Len)), pos, x.String())
			fr.vals[x] = ElemRefV{S: b, Idx: idx}
		default:
			panic(unsupported("IndexAddr on " + fmt.Sprintf("%T", b)))
		}
	case *ssa.Index:
		idx := fr.val(x.Index).(Sc).T
		switch b := fr.val(x.X).(type) {
		case ArrV:
			at := x.X.Type().Underlying().(*types.Array)
			s.oblig("bounds", "", fr.safetyTags(), st.reach, and(app("<=", "0", idx), app("<", idx, num(at.Len()))), pos, x.String())
			terms := make([]string, len(b.Elems))
			for i, e := range b.Elems {
				terms[i] = sel(e, idx)
			}
			fr.vals[x] = g.fromLeaves(b.Elem, terms)
		case StrV: // generic index on string
			s.oblig("bounds", "", fr.safetyTags(), st.reach, and(app("<=", "0", idx), app("<", idx, b.Len)), pos, x.String())
			fr.vals[x] = Sc{sel(b.Arr, add(b.Off, idx)), SInt}
		default:
			panic(unsupported("Index on " + fmt.Sprintf("%T", b)))
		}
	case *ssa.Lookup:
		switch b := fr.val(x.X).(type) {
		case StrV:
			idx := fr.val(x.Index).(Sc).T
			s.oblig("bounds", "", fr.safetyTags(), st.reach, and(app("<=", "0", idx), app("<", idx, b.Len)), pos, x.String())
			v := s.define("byte", SInt, sel(b.Arr, add(b.Off, idx)))
			s.assert(and(app("<=", "0", v), app("<=", v, "255")))
			fr.vals[x] = Sc{v, SInt}
		default:
			fr.vals[x] = fr.mapLookup(x, st)
		}
	case *ssa.Slice:
		fr.execSlice(x, st, pos)
	case *ssa.UnOp:
		switch x.Op {
		case token.MUL:
			switch p := fr.val(x.X).(type) {
			case PtrV:
				if p.Local == nil {
					s.oblig("nil", "", fr.safetyTags(), st.reach, not(eq(p.Addr, "0")), pos, "nil dereference: "+x.String())
				}
				if strings.HasPrefix(p.HT, "global:") {
					fr.vals[x] = fr.loadGlobal(p, st)
				} else {
					v := fx.load(st, p)
					fr.vals[x] = v
					fr.assumeLoadFacts(st, v, p.Elem)
				}
			case ElemPtrV:
				fr.vals[x] = fr.loadElem(st, p)
				fr.assumeLoadFacts(st, fr.vals[x], p.Elem)
			case ElemRefV:
				terms := make([]string, len(p.S.Elems))
				for i, e := range p.S.Elems {
					terms[i] = sel(e, add(p.S.Off, p.Idx))
				}
				fr.vals[x] = g.fromLeaves(p.S.Elem, terms)
				fr.assumeLoadFacts(st, fr.vals[x], p.S.Elem)
			default:
				panic(unsupported(fmt.Sprintf("load through %T", p)))
			}
		case token.NOT:
			fr.vals[x] = Sc{not(fr.val(x.X).(Sc).T), SBool}
		case token.SUB:
			fr.vals[x] = Sc{app("-", fr.val(x.X).(Sc).T), SInt}
		default:
			fr.vals[x] = fr.freshVal("unop", x.Type())
		}
	case *ssa.BinOp:
		fr.vals[x] = fr.binop(x, st)
	case *ssa.ChangeType:
		fr.vals[x] = fr.retype(fr.val(x.X), x.Type())
	case *ssa.ChangeInterface:
		fr.vals[x] = fr.val(x.X)
	case *ssa.Convert:
		fr.vals[x] = fr.convert(x, st)
	case *ssa.MakeInterface:
		fr.vals[x] = fr.makeInterface(x, st)
	case *ssa.TypeAssert:
		fr.vals[x] = fr.typeAssert(x, st, pos)
	case *ssa.Extract:
		fr.vals[x] = fr.val(x.Tuple).(TupleV).V[x.Index]
	case *ssa.MakeClosure:
		fv := FuncV{Fn: x.Fn.(*ssa.Function)}
		for _, b := range x.Bindings {
			fv.Bind = append(fv.Bind, fr.val(b))
		}
		fr.vals[x] = fv
	case *ssa.Store:
		v := fr.val(x.Val)
		switch p := fr.val(x.Addr).(type) {
		case PtrV:
			if p.Local == nil {
				s.oblig("nil", "", fr.safetyTags(), st.reach, not(eq(p.Addr, "0")), pos, "nil dereference: "+x.String())
			}
			if strings.HasPrefix(p.HT, "global:") {
				s.oblig("frame", "global", []string{"C18"}, st.reach, "false", pos, "store to package-level variable "+p.HT)
				return
			}
			fr.checkFrame(st, p, pos)
			fx.storeVal(st, p, v)
			fr.foldWF(st, p.HT, p.Addr)
			fr.foldPos(st, p.HT, p.Addr)
			fr.foldPrec(st, p.HT, p.Addr)
		case ElemPtrV:
			fr.storeElem(st, p, v)
		default:
			panic(unsupported(fmt.Sprintf("store through %T", p)))
		}
	case *ssa.Defer:
		if x.Block().Index != 0 && !x.Block().Dominates(x.Block()) {
			panic(unsupported("conditional defer"))
		}
		fr.defers = append(fr.defers, x)
		// evaluate the closure now
		if _, ok := fr.vals[x.Call.Value].(FuncV); !ok {
			panic(unsupported("defer of a non-closure"))
		}
	case *ssa.RunDefers:
		fr.runDefers(st, nil)
	case ssa.CallInstruction:
		fr.call(x, st)
	case *ssa.MakeSlice:
		ln := fr.val(x.Len).(Sc).T
		et := x.Type().Underlying().(*types.Slice).Elem()
		var elems []string
		for _, l := range g.leaves(et) {
			elems = append(elems, g.zeroOf(arrOf(l.S)))
		}
		fr.vals[x] = SliceV{Elem: et, Len: ln, Off: "0", Nil: "false", Elems: elems}
	case *ssa.Range:
		sv, ok := fr.val(x.X).(StrV)
		if !ok {
			panic(unsupported("range over non-string"))
		}
		// the iterator is a hidden cell holding the byte offset of the next element
		a := s.fresh("rangeiter", SInt)
		s.assert(and(app(">", a, "1"), eq(app("birth", a), st.now)))
		st.now = add1(st.now)
		st.heap[rangeLeaf] = store(fx.heapLeaf(st, rangeLeaf, SInt), a, "0")
		fr.vals[x] = RangeV{S: sv, Cell: a}
	case *ssa.Next:
		if !x.IsString {
			panic(unsupported("range over a map"))
		}
		fr.vals[x] = fr.nextRune(fr.val(x.Iter).(RangeV), st)
	default:
		panic(unsupported(fmt.Sprintf("instruction %T: %s", instr, instr.String())))
	}
}

type ElemPtrV struct {
	Base PtrV
	Idx  string
	Elem types.Type
}
type ElemRefV struct {
	S   SliceV
	Idx string
}
type RangeV struct {
	S    StrV
	Cell string
}

const rangeLeaf = "rangeiter.pos"

// utf8Funs declares the uninterpreted encoding functions utf8len(r), utf8byte(r, k) with the facts the
// contracts rely on (length by range of the code point; bytes of a multi-byte encoding are >= 0x80;
// an ASCII code point is its own single byte; U+FFFD takes three bytes).
func (fx *fnExec) utf8Funs() (string, string) {
	s := fx.s
	_, had := s.declared[sym("utf8len")]
	ln := s.declFun("utf8len", []Sort{SInt}, SInt)
	by := s.declFun("utf8byte", []Sort{SInt, SInt}, SInt)
	if !had {
		s.assert("(forall ((r Int)) (! (= (utf8len r) (ite (< r 128) 1 (ite (< r 2048) 2 (ite (< r 65536) 3 4)))) :pattern ((utf8len r))))")
		s.assert("(forall ((r Int) (k Int)) (! (=> (and (>= r 128) (<= 0 k) (< k (utf8len r))) (and (<= 128 (utf8byte r k)) (<= (utf8byte r k) 255))) :pattern ((utf8byte r k))))")
		s.assert("(forall ((r Int)) (! (=> (and (<= 0 r) (< r 128)) (= (utf8byte r 0) r)) :pattern ((utf8byte r 0))))")
		s.usesQuant = true
	}
	return ln, by
}

// nextRune: one step of `for i, r := range s`. A byte below 0x80 is its own rune; otherwise either
// the bytes at the position are the (shortest-form, non-surrogate) UTF-8 encoding of a rune >= 0x80,
// or they are not a valid encoding and the step yields U+FFFD for that single byte.
func (fr *frame) nextRune(it RangeV, st *State) Val {
	fx := fr.fx
	s := fx.s
	ln, by := fx.utf8Funs()
	arr := fx.heapLeaf(st, rangeLeaf, SInt)
	i := s.define("rangepos", SInt, sel(arr, it.Cell))
	ok := s.define("rangeok", SBool, app("<", i, it.S.Len))
	r := s.fresh("rune", SInt)
	w := s.fresh("runew", SInt)
	b0 := sel(it.S.Arr, add(it.S.Off, i))
	// the same uninterpreted validity predicate as in the contract of utf8.DecodeRuneInString
	validF := s.declFun("uf_utf8valid", []Sort{arrOf(SInt), SInt, SInt}, SBool)
	valid := s.define("runevalid", SBool, app(validF, it.S.Arr, add(it.S.Off, i), sub(it.S.Len, i)))
	k := "rk!0"
	enc := fmt.Sprintf("(forall ((%s Int)) (! (=> (and (<= 0 %s) (< %s %s)) (= (select %s (+ %s %s %s)) (%s %s %s))) :pattern ((%s %s %s))))", k, k, k, w, it.S.Arr, it.S.Off, i, k, by, r, k, by, r, k)
	s.usesQuant = true
	s.assert(implies(ok, and(
		app("<=", "0", i), app("<=", "0", b0), app("<=", b0, "255"),
		implies(app("<", b0, "128"), and(eq(r, b0), eq(w, "1"))),
		implies(app(">=", b0, "128"), or(
			and(not(valid), eq(r, "65533"), eq(w, "1")),
			and(valid, app(">=", r, "128"), app("<=", r, "1114111"), not(and(app("<=", "55296", r), app("<=", r, "57343"))),
				eq(w, app(ln, r)), app("<=", add(i, w), it.S.Len), enc))))))
	// first and second byte as ground facts (the quantified fact needs a trigger term)
	s.assert(implies(and(ok, valid, app(">=", b0, "128")), and(eq(b0, app(by, r, "0")), eq(w, app(ln, r)))))
	fr.lastRuneValid = valid
	st.heap[rangeLeaf] = s.define("H!"+rangeLeaf, arrOf(SInt), store(arr, it.Cell, app("ite", ok, add(i, w), i)))
	return TupleV{V: []Val{Sc{ok, SBool}, Sc{i, SInt}, Sc{r, SInt}}}
}

func isConstLike(v ssa.Value) bool {
	switch v.(type) {
	case *ssa.Const, *ssa.Parameter, *ssa.FreeVar:
		return true
	}
	return false
}

func add1(t string) string {
	// (+ base k) arithmetic on the allocation clock
	if strings.HasPrefix(t, "(+ ") && strings.HasSuffix(t, ")") {
		parts := strings.Fields(t[3 : len(t)-1])
		if len(parts) == 2 {
			var k int
			if _, err := fmt.Sscanf(parts[1], "%d", &k); err == nil {
				return fmt.Sprintf("(+ %s %d)", parts[0], k+1)
			}
		}
	}
	return "(+ " + t + " 1)"
}

func (fr *frame) loadElem(st *State, p ElemPtrV) Val {
	fx := fr.fx
	ls := fx.g.leaves(p.Elem)
	terms := make([]string, len(ls))
	for i, l := range ls {
		arr := fx.heapLeaf(st, p.Base.HT+p.Base.Path+".elem"+l.Path, arrOf(l.S))
		terms[i] = sel(sel(arr, p.Base.Addr), p.Idx)
	}
	return fx.g.fromLeaves(p.Elem, terms)
}

func (fr *frame) storeElem(st *State, p ElemPtrV, v Val) {
	fx := fr.fx
	ls := fx.g.leaves(p.Elem)
	terms := fx.g.toLeaves(v)
	for i, l := range ls {
		name := p.Base.HT + p.Base.Path + ".elem" + l.Path
		arr := fx.heapLeaf(st, name, arrOf(l.S))
		fx.g.leafSorts[name] = arrOf(l.S)
		st.heap[name] = fx.s.define("H!"+name, arrOf(arrOf(l.S)), store(arr, p.Base.Addr, store(sel(arr, p.Base.Addr), p.Idx, terms[i])))
	}
}

func (fr *frame) assumeLoadFacts(st *State, v Val, t types.Type) {
	// values read from the heap satisfy their type's invariants
	fr.assumeTypeFacts(st, v, t)
}

func (fr *frame) loadGlobal(p PtrV, st *State) Val {
	// package-level variables are read-only after init (checked by frame obligations): their value
	// is an uninterpreted constant per variable.
	fx := fr.fx
	ls := fx.g.leaves(p.Elem)
	terms := make([]string, len(ls))
	for i, l := range ls {
		terms[i] = fx.s.decl(p.HT+l.Path, l.S)
	}
	v := fx.g.fromLeaves(p.Elem, terms)
	return v
}

func (fr *frame) mapLookup(x *ssa.Lookup, st *State) Val {
	fx := fr.fx
	// only: comma-ok lookup in a package-level map with string-like keys; result is an
	// uninterpreted membership predicate over the key's bytes (trusted: the map is read-only after init)
	mv := x.X
	name := "map"
	if u, ok := mv.(*ssa.UnOp); ok {
		if gl, ok := u.X.(*ssa.Global); ok {
			name = gl.Pkg.Pkg.Name() + "." + gl.Name()
		}
	}
	key, ok := fr.val(x.Index).(StrV)
	if !ok {
		panic(unsupported("map lookup with non-string key"))
	}
	var okT string
	if name == "token.KeywordsMap" {
		okT = fx.keywordMember(key)
		fx.g.trustedUsed["token.KeywordsMap == set(token.Keywords literal), read-only after init"] = true
	} else {
		f := fx.s.declFun("member!"+name, []Sort{arrOf(SInt), SInt, SInt}, SBool)
		okT = app(f, key.Arr, key.Off, key.Len)
		fx.g.trustedUsed["map lookup "+name+" (membership predicate, read-only after init)"] = true
	}
	elemT := x.X.Type().Underlying().(*types.Map).Elem()
	if x.CommaOk {
		return TupleV{V: []Val{fr.freshVal("mapval", elemT), Sc{okT, SBool}}}
	}
	return fr.freshVal("mapval", elemT)
}

func (fr *frame) execSlice(x *ssa.Slice, st *State, pos token.Position) {
	fx := fr.fx
	s := fx.s
	if x.Max != nil {
		panic(unsupported("3-index slice"))
	}
	lo := "0"
	if x.Low != nil {
		lo = fr.val(x.Low).(Sc).T
	}
	switch b := fr.val(x.X).(type) {
	case StrV:
		hi := b.Len
		if x.High != nil {
			hi = fr.val(x.High).(Sc).T
		}
		s.oblig("slice", "", fr.safetyTags(), st.reach, and(app("<=", "0", lo), app("<=", lo, hi), app("<=", hi, b.Len)), pos, x.String())
		fr.vals[x] = StrV{b.Arr, fx.s.define("off", SInt, add(b.Off, lo)), fx.s.define("len", SInt, sub(hi, lo))}
	case SliceV:
		hi := b.Len
		if x.High != nil {
			hi = fr.val(x.High).(Sc).T
		}
		// s[lo:hi] with hi <= cap is legal Go; we only model hi <= len (stricter, sound for no-panic)
		s.oblig("slice", "", fr.safetyTags(), st.reach, and(app("<=", "0", lo), app("<=", lo, hi), app("<=", hi, b.Len)), pos, x.String())
		elems := b.Elems
		if lo != "0" {
			elems = nil
			for i, e := range b.Elems {
				elems = append(elems, fx.shiftArr(e, lo, sub(hi, lo), fx.g.leaves(b.Elem)[i].S))
			}
		}
		fr.vals[x] = SliceV{Elem: b.Elem, Len: sub(hi, lo), Off: "0", Nil: b.Nil, Elems: elems}
	case PtrV: // pointer to array
		at, ok := b.Elem.Underlying().(*types.Array)
		if !ok {
			panic(unsupported("slice of pointer to non-array"))
		}
		hi := num(at.Len())
		if x.High != nil {
			hi = fr.val(x.High).(Sc).T
		}
		s.oblig("slice", "", fr.safetyTags(), st.reach, and(app("<=", "0", lo), app("<=", lo, hi), app("<=", hi, num(at.Len()))), pos, x.String())
		ls := fx.g.leaves(at.Elem())
		var elems []string
		for _, l := range ls {
			arr := fx.heapLeaf(st, b.HT+b.Path+".elem"+l.Path, arrOf(l.S))
			elems = append(elems, fx.shiftArr(sel(arr, b.Addr), lo, sub(hi, lo), l.S))
		}
		fr.vals[x] = SliceV{Elem: at.Elem(), Len: sub(hi, lo), Off: "0", Nil: "false", Elems: elems}
		if fr.sliceOrigin == nil {
			fr.sliceOrigin = map[ssa.Value]PtrV{}
		}
		fr.sliceOrigin[x] = b
	default:
		panic(unsupported(fmt.Sprintf("slice of %T", b)))
	}
}

func (fr *frame) retype(v Val, t types.Type) Val {
	switch x := v.(type) {
	case PtrV:
		if pt, ok := t.Underlying().(*types.Pointer); ok {
			x.Elem = pt.Elem()
			if x.Path == "" && x.Local == nil {
				x.HT = fr.fx.g.heapTypeName(pt.Elem())
			}
			return x
		}
	case StructV:
		x.T = t
		return x
	}
	return v
}

func isUnsigned(t types.Type) (bits int, ok bool) {
	b, isB := t.Underlying().(*types.Basic)
	if !isB {
		return 0, false
	}
	switch b.Kind() {
	case types.Uint8:
		return 8, true
	case types.Uint16:
		return 16, true
	case types.Uint32:
		return 32, true
	}
	return 0, false
}

func (fr *frame) wrap(t types.Type, term string) string {
	if bits, ok := isUnsigned(t); ok {
		return app("mod", term, num(int64(1)<<bits))
	}
	return term
}

func (fr *frame) binop(x *ssa.BinOp, st *State) Val {
	fx := fr.fx
	a, b := fr.val(x.X), fr.val(x.Y)
	switch av := a.(type) {
	case Sc:
		bv, ok := b.(Sc)
		if !ok {
			// pointer compared with nil const etc.
			if pb, ok := b.(PtrV); ok {
				bv = Sc{pb.Addr, SInt}
			} else {
				panic(unsupported("binop operand kinds"))
			}
		}
		if av.S == SBool {
			switch x.Op {
			case token.EQL:
				return Sc{eq(av.T, bv.T), SBool}
			case token.NEQ:
				return Sc{not(eq(av.T, bv.T)), SBool}
			case token.AND, token.LAND:
				return Sc{and(av.T, bv.T), SBool}
			case token.OR, token.LOR:
				return Sc{or(av.T, bv.T), SBool}
			}
			panic(unsupported("bool binop " + x.Op.String()))
		}
		switch x.Op {
		case token.ADD:
			return Sc{fr.wrap(x.Type(), app("+", av.T, bv.T)), SInt}
		case token.SUB:
			return Sc{fr.wrap(x.Type(), app("-", av.T, bv.T)), SInt}
		case token.MUL:
			return Sc{fr.wrap(x.Type(), app("*", av.T, bv.T)), SInt}
		case token.QUO, token.REM:
			fx.s.oblig("divzero", "", fr.safetyTags(), st.reach, not(eq(bv.T, "0")), fx.posOf(x.Pos()), x.String())
			// Go truncates toward zero; SMT div floors. Only modelled for non-negative operands.
			r := fr.freshVal("quo", x.Type()).(Sc)
			op := "div"
			if x.Op == token.REM {
				op = "mod"
			}
			fx.s.assert(implies(and(app(">=", av.T, "0"), app(">", bv.T, "0")), eq(r.T, app(op, av.T, bv.T))))
			return r
		case token.EQL:
			return Sc{eq(av.T, bv.T), SBool}
		case token.NEQ:
			return Sc{not(eq(av.T, bv.T)), SBool}
		case token.LSS:
			return Sc{app("<", av.T, bv.T), SBool}
		case token.LEQ:
			return Sc{app("<=", av.T, bv.T), SBool}
		case token.GTR:
			return Sc{app(">", av.T, bv.T), SBool}
		case token.GEQ:
			return Sc{app(">=", av.T, bv.T), SBool}
		default:
			// bit operations: unconstrained result of the right type (sound over-approximation)
			r := fr.freshVal("bitop", x.Type())
			fr.assumeTypeFacts(st, r, x.Type())
			return r
		}
	case StrV:
		bv := b.(StrV)
		switch x.Op {
		case token.ADD:
			return fx.strConcat(av, bv)
		case token.EQL:
			return Sc{fx.strEq(av, bv), SBool}
		case token.NEQ:
			return Sc{not(fx.strEq(av, bv)), SBool}
		default:
			return fr.freshVal("strcmp", x.Type())
		}
	case PtrV:
		var bt string
		switch bv := b.(type) {
		case PtrV:
			bt = bv.Addr
			if bv.Path != av.Path {
				panic(unsupported("comparison of interior pointers"))
			}
		case Sc:
			bt = bv.T
		}
		switch x.Op {
		case token.EQL:
			return Sc{eq(av.Addr, bt), SBool}
		case token.NEQ:
			return Sc{not(eq(av.Addr, bt)), SBool}
		}
	case IfV:
		bv, ok := b.(IfV)
		if !ok {
			panic(unsupported("interface compared with non-interface"))
		}
		e := and(eq(av.Tag, bv.Tag), eq(av.Ref, bv.Ref))
		switch x.Op {
		case token.EQL:
			return Sc{e, SBool}
		case token.NEQ:
			return Sc{not(e), SBool}
		}
	case SliceV:
		// only comparison with nil
		if bv, ok := b.(SliceV); ok && bv.Nil == "true" {
			switch x.Op {
			case token.EQL:
				return Sc{av.Nil, SBool}
			case token.NEQ:
				return Sc{not(av.Nil), SBool}
			}
		}
	}
	panic(unsupported(fmt.Sprintf("binop %s on %T", x.Op, a)))
}

// strEq: equality of two strings by content. Exact for strings of length <= strEqBound;
// beyond it an unconstrained boolean stands for the comparison of the remaining bytes.
const strEqBound = 16

func (fx *fnExec) strEq(a, b StrV) string {
	if a == b {
		return "true"
	}
	if a.Arr == b.Arr && a.Off == b.Off {
		return eq(a.Len, b.Len)
	}
	// constant on one side: exact
	n, isConst := fx.constLen(b)
	if !isConst {
		if m, ok := fx.constLen(a); ok {
			a, b = b, a
			n, isConst = m, true
		}
	}
	if isConst {
		cs := []string{eq(a.Len, num(int64(n)))}
		for k := 0; k < n; k++ {
			cs = append(cs, eq(sel(a.Arr, add(a.Off, num(int64(k)))), sel(b.Arr, add(b.Off, num(int64(k))))))
		}
		return and(cs...)
	}
	cs := []string{eq(a.Len, b.Len)}
	for k := 0; k < strEqBound; k++ {
		ks := num(int64(k))
		cs = append(cs, implies(app("<", ks, a.Len), eq(sel(a.Arr, add(a.Off, ks)), sel(b.Arr, add(b.Off, ks)))))
	}
	restF := fx.s.declFun("streq!rest", []Sort{arrOf(SInt), SInt, SInt, arrOf(SInt), SInt, SInt}, SBool)
	rest := app(restF, a.Arr, a.Off, a.Len, b.Arr, b.Off, b.Len)
	cs = append(cs, implies(app(">", a.Len, num(strEqBound)), rest))
	// the same backing bytes are equal whatever their length
	same := and(eq(a.Arr, b.Arr), eq(a.Off, b.Off), eq(a.Len, b.Len))
	return fx.s.define("streq", SBool, or(same, and(cs...)))
}

func (fx *fnExec) constLen(v StrV) (int, bool) {
	for s, lit := range fx.strLits {
		if lit == v {
			return len(s), true
		}
	}
	return 0, false
}

func (fx *fnExec) strConcat(a, b StrV) StrV {
	arr := fx.s.fresh("concat", arrOf(SInt))
	ln := fx.s.define("len", SInt, add(a.Len, b.Len))
	// content facts for constant parts
	if n, ok := fx.constLen(a); ok {
		for k := 0; k < n && k < 32; k++ {
			fx.s.assert(eq(sel(arr, num(int64(k))), sel(a.Arr, add(a.Off, num(int64(k))))))
		}
		if m, ok := fx.constLen(b); ok {
			for k := 0; k < m && k < 32; k++ {
				fx.s.assert(eq(sel(arr, num(int64(n+k))), sel(b.Arr, add(b.Off, num(int64(k))))))
			}
		}
	}
	if _, ok := fx.constLen(a); !ok {
		fx.s.assert(fmt.Sprintf("(forall ((cj Int)) (! (=> (and (<= 0 cj) (< cj %s)) (= (select %s cj) (select %s (+ %s cj)))) :pattern ((select %s cj))))", a.Len, arr, a.Arr, a.Off, arr))
		fx.s.usesQuant = true
	}
	if _, ok := fx.constLen(b); !ok {
		fx.s.assert(fmt.Sprintf("(forall ((cj Int)) (! (=> (and (<= %s cj) (< cj (+ %s %s))) (= (select %s cj) (select %s (+ %s (- cj %s))))) :pattern ((select %s cj))))", a.Len, a.Len, b.Len, arr, b.Arr, b.Off, a.Len, arr))
		fx.s.usesQuant = true
	} else if _, aok := fx.constLen(a); !aok {
		if m, _ := fx.constLen(b); m <= 32 {
			for k := 0; k < m; k++ {
				fx.s.assert(eq(sel(arr, add(a.Len, num(int64(k)))), sel(b.Arr, add(b.Off, num(int64(k))))))
			}
		}
	}
	return StrV{arr, "0", ln}
}

func (fr *frame) convert(x *ssa.Convert, st *State) Val {
	fx := fr.fx
	v := fr.val(x.X)
	from, to := x.X.Type().Underlying(), x.Type().Underlying()
	switch tv := to.(type) {
	case *types.Basic:
		if tv.Info()&types.IsString != 0 {
			switch sv := v.(type) {
			case StrV:
				return sv
			case SliceV: // string([]byte)
				return StrV{sv.Elems[0], sv.Off, sv.Len}
			case Sc: // string(rune)
				arr := fx.s.fresh("runestr", arrOf(SInt))
				ln := fx.s.fresh("runelen", SInt)
				fx.s.assert(and(app("<=", "1", ln), app("<=", ln, "4")))
				fx.s.assert(implies(and(app("<=", "0", sv.T), app("<", sv.T, "128")), and(eq(ln, "1"), eq(sel(arr, "0"), sv.T))))
				return StrV{arr, "0", ln}
			}
		}
		if tv.Info()&types.IsInteger != 0 {
			sv, ok := v.(Sc)
			if !ok {
				break
			}
			if fb, ok := from.(*types.Basic); ok && fb.Info()&types.IsInteger != 0 {
				if bits, uns := isUnsigned(x.Type()); uns {
					// narrowing conversion wraps
					if fbits, funs := isUnsigned(x.X.Type()); funs && fbits <= bits {
						return sv
					}
					return Sc{fx.s.define("conv", SInt, app("mod", sv.T, num(int64(1)<<bits))), SInt}
				}
				return sv // widening or same-width signed: identity under the no-overflow assumption
			}
		}
	case *types.Slice:
		if sv, ok := v.(StrV); ok { // []byte(string)
			return SliceV{Elem: tv.Elem(), Len: sv.Len, Off: "0", Nil: "false", Elems: []string{fx.shiftArr(sv.Arr, sv.Off, sv.Len, SInt)}}
		}
		if sv, ok := v.(SliceV); ok {
			return sv
		}
	}
	panic(unsupported(fmt.Sprintf("conversion %v -> %v", x.X.Type(), x.Type())))
}

func (fr *frame) makeInterface(x *ssa.MakeInterface, st *State) Val {
	fx := fr.fx
	v := fr.val(x.X)
	tag := num(int64(fx.g.typeTag(x.X.Type())))
	switch pv := v.(type) {
	case PtrV:
		if pv.Path != "" {
			panic(unsupported("interior pointer boxed in interface"))
		}
		return IfV{tag, pv.Addr}
	}
	// boxed non-pointer value
	ref := fx.s.fresh("box", SInt)
	fx.s.assert(and(app(">", ref, "1"), eq(app("birth", ref), st.now)))
	st.now = add1(st.now)
	fx.boxed[ref] = TV{v, x.X.Type()}
	if sc, ok := v.(Sc); ok && sc.S == SInt {
		fx.s.assert(eq(app(fx.s.declFun("boxval", []Sort{SInt}, SInt), ref), sc.T))
	}
	return IfV{tag, ref}
}

func (fr *frame) typeAssert(x *ssa.TypeAssert, st *State, pos token.Position) Val {
	fx := fr.fx
	iv, ok := fr.val(x.X).(IfV)
	if !ok {
		panic(unsupported("type assertion on non-interface value"))
	}
	var okT string
	var res Val
	if _, isIface := x.AssertedType.Underlying().(*types.Interface); isIface {
		// dynamic type implements the interface
		var alts []string
		for _, ct := range fx.g.implementers(x.AssertedType) {
			alts = append(alts, eq(iv.Tag, num(int64(fx.g.typeTag(ct)))))
		}
		okT = fx.s.define("implements", SBool, or(alts...))
		res = iv
	} else {
		okT = eq(iv.Tag, num(int64(fx.g.typeTag(x.AssertedType))))
		if pt, isPtr := x.AssertedType.Underlying().(*types.Pointer); isPtr {
			res = PtrV{Addr: iv.Ref, HT: fx.g.heapTypeName(pt.Elem()), Elem: pt.Elem()}
		} else if bv, ok := fx.boxed[iv.Ref]; ok && types.Identical(bv.T, x.AssertedType) {
			res = bv.V
		} else {
			res = fr.freshVal("unbox", x.AssertedType)
			fr.assumeTypeFacts(st, res, x.AssertedType)
		}
	}
	if x.CommaOk {
		// on failure the value is the zero value
		zero := fx.g.zero(x.AssertedType)
		if _, isIface := x.AssertedType.Underlying().(*types.Interface); isIface {
			zero = IfV{"0", "0"}
		}
		ls := fx.g.toLeaves(res)
		zs := fx.g.toLeaves(zero)
		out := make([]string, len(ls))
		for i := range ls {
			out[i] = ite(okT, ls[i], zs[i])
		}
		return TupleV{V: []Val{fx.g.fromLeaves(x.AssertedType, out), Sc{okT, SBool}}}
	}
	fx.s.oblig("typeassert", "", fr.safetyTags(), st.reach, okT, pos, x.String())
	return res
}

// checkFrame: every store must be inside the function's modifies clause (or to an object allocated
// during the call).
func (fr *frame) checkFrame(st *State, p PtrV, pos token.Position) {
	fx := fr.fx
	if p.Local != nil {
		return
	}
	c := fx.c
	if c == nil {
		return
	}
	freshObj := app(">=", app("birth", p.Addr), fx.pre.now)
	// all leaves of p.Elem must be covered: we require that each leaf individually is allowed
	for _, lf := range fx.g.leaves(p.Elem) {
		leaf := p.HT + p.Path + lf.Path
		var al []string
		al = append(al, freshObj)
		for _, m := range c.Modifies {
			for _, l := range fx.modLocs(fx.fn, c, m, nil, fx.pre) {
				if l.leaf == leaf {
					switch {
					case l.addr == "" && l.except == "":
						al = append(al, "true")
					case l.addr == "":
						al = append(al, eq(l.except, p.Addr))
					default:
						al = append(al, eq(l.addr, p.Addr))
					}
				}
			}
		}
		goal := or(al...)
		if goal == "true" {
			continue
		}
		fx.s.oblig("frame", "", []string{"C18", "frame"}, st.reach, goal, pos, "store to "+leaf+" outside modifies")
	}
}

// shiftArr returns an array r with r[k] = a[off+k] for 0 <= k < n (a itself when off is 0).
func (fx *fnExec) shiftArr(a, off, n string, elemSort Sort) string {
	if off == "0" {
		return a
	}
	r := fx.s.fresh("shift", arrOf(elemSort))
	k := sym(fmt.Sprintf("k!s%d", len(fx.s.Items)))
	fx.s.assert(fmt.Sprintf("(forall ((%s Int)) (! (=> (and (<= 0 %s) (< %s %s)) (= (select %s %s) (select %s (+ %s %s)))) :pattern ((select %s %s))))", k, k, k, n, r, k, a, off, k, r, k))
	fx.s.usesQuant = true
	return r
}
