package main

import (
	"bufio"
	"encoding/json"
	"fmt"
	"os"
	"path/filepath"
	"regexp"
	"sort"
	"strconv"
	"strings"
	"sync"
	"time"
)

// ---- known findings

type Finding struct {
	Kind       string // finding | fixed
	Property   string
	Obligation string
	Text       string
}

func loadFindings(path string) ([]Finding, error) {
	f, err := os.Open(path)
	if err != nil {
		if os.IsNotExist(err) {
			return nil, nil
		}
		return nil, err
	}
	defer f.Close()
	var out []Finding
	sc := bufio.NewScanner(f)
	re := regexp.MustCompile(`^(finding|fixed):\s+property=(\S+)\s+(?:obligation=(\S+)\s+)?(.*)$`)
	_ = re
	for sc.Scan() {
		line := strings.TrimSpace(sc.Text())
		if line == "" || strings.HasPrefix(line, "#") {
			continue
		}
		m := re.FindStringSubmatch(line)
		if m == nil {
			return nil, fmt.Errorf("malformed line in %s: %q", path, line)
		}
		out = append(out, Finding{Kind: m[1], Property: m[2], Obligation: m[3], Text: m[4]})
	}
	return out, nil
}

func verifDir() string {
	if d := os.Getenv("VERIF_DIR"); d != "" {
		return d
	}
	return "/verif"
}

func hasTag(tags []string, t string) bool {
	for _, x := range tags {
		if x == t {
			return true
		}
	}
	return false
}

type evidence struct {
	PropertyID  string                 `json:"property_id"`
	Tier        string                 `json:"tier"`
	Seed        int                    `json:"seed"`
	Level       string                 `json:"level"`
	Coverage    map[string]interface{} `json:"coverage"`
	Assumptions []string               `json:"assumptions"`
	WallS       float64                `json:"wall_s"`
	Violations  int                    `json:"violations"`
}

// cmdCheck: vcgen check <ID> quick|thorough
func cmdCheck(args []string) int {
	if len(args) < 1 {
		fmt.Fprintln(os.Stderr, "usage: vcgen check <ID> [quick|thorough]")
		return 2
	}
	id := args[0]
	checkedProperty = id
	tier := "quick"
	if len(args) > 1 {
		tier = args[1]
	}
	if t := os.Getenv("VERIF_TIER"); t != "" && len(args) < 2 {
		tier = t
	}
	seed := 0
	if s := os.Getenv("VERIF_SEED"); s != "" {
		seed, _ = strconv.Atoi(s)
	}
	t0 := time.Now()
	if id != "C03" && id != "C05" && id != "C06" && id != "C09" && id != "C20" && os.Getenv("VERIF_NOPOS") == "" {
		os.Setenv("VERIF_NOPOS", "1") // the ghost position layer is only needed where positions are claimed
	}
	g, err := Load(repoDir())
	if err != nil {
		fmt.Fprintln(os.Stderr, "ENGINE-ERROR: load:", err)
		fmt.Printf("VIOLATION property=%s replay=%s no-failing-input-found\n", id, writeReplayText(id, "load-error", "the repository or its contract files no longer load: "+err.Error()))
		writeEvidence(id, tier, seed, nil, nil, g, time.Since(t0), 1, nil, []string{"load error: " + err.Error()})
		return 1
	}
	findings, err := loadFindings(filepath.Join(verifDir(), "known_findings.txt"))
	if err != nil {
		fmt.Fprintln(os.Stderr, "ENGINE-ERROR:", err)
		return 2
	}
	known := map[string]Finding{}
	for _, f := range findings {
		if f.Kind == "finding" && f.Property == id {
			known[f.Obligation] = f
		}
	}
	cfg := SolverCfg{TimeoutMs: 30000, WorkDir: os.TempDir(), NoRace: map[string]bool{}}
	for name := range known {
		cfg.NoRace[name] = true
		knownNames[name] = true
		knownText[name] = known[name].Text
	}
	if tier == "thorough" {
		cfg.TimeoutMs = 120000
		cfg.Thorough = true
		xcheckSeed = seed
		if b := os.Getenv("VERIF_XCHECK"); b != "" {
			xcheckBudget, _ = strconv.Atoi(b)
		}
	}
	// generate everything (cheap), solve only what belongs to the property
	want := func(ob *Oblig) bool {
		return hasTag(ob.Tags, id) || (hasTag(ob.Tags, "canary") && obligInProperty(ob, id))
	}
	var sessions []*Session
	var inlinedNote []string
	for pass := 0; pass < 2; pass++ {
		sessions = nil
		sessionByFunc = map[string]*Session{}
		for _, n := range sortedKeys(g.cs.Funcs) {
			c := g.cs.Funcs[n]
			if c.Trusted || g.inlined[n] {
				continue
			}
			sess := g.Verify(c)
			sessionByFunc[sess.Func] = sess
			sessions = append(sessions, sess)
		}
		// cover obligations ride along with sessions that have selected obligations
		wantAll := func(ob *Oblig) bool { return want(ob) || ob.Cover }
		var active []*Session
		for _, s := range sessions {
			has := s.Unsup != ""
			for _, ob := range s.Obligs {
				if want(ob) {
					has = true
				}
			}
			if has {
				active = append(active, s)
			}
		}
		// a function that left the subset only matters to this property if its contract mentions it
		var kept []*Session
		for _, s := range active {
			if s.Unsup != "" && !contractMentions(g.cs.Funcs[s.Func], id) {
				continue
			}
			kept = append(kept, s)
		}
		sessions = kept
		parallelDischarge(sessions, wantAll, cfg)

		// second pass: obligations left undecided (timeout / unknown, not refuted) are retried one at a
		// time with twice the time, so that load on the machine does not turn into an alarm
		retrySem := make(chan struct{}, 4)
		var rwg sync.WaitGroup
		for _, s := range sessions {
			for _, ob := range s.Obligs {
				if !want(ob) || ob.Cover || ob.Canary || ob.Result == "unsat" || ob.Result == "sat" || ob.Result == "error" || ob.Result == "" {
					continue
				}
				if cfg.NoRace[ob.Name] {
					continue
				}
				rwg.Add(1)
				go func(s *Session, ob *Oblig) {
					defer rwg.Done()
					retrySem <- struct{}{}
					defer func() { <-retrySem }()
					c2 := cfg
					c2.TimeoutMs = cfg.TimeoutMs * 2
					c2.Thorough = true // also asks z3 4.8.12 again, standalone
					prev := ob.Result
					raceStandalone(s, ob, c2)
					if ob.Result == "error" && prev != "error" {
						ob.Result = prev
					}
				}(s, ob)
			}
		}
		rwg.Wait()
		if pass == 1 || os.Getenv("VERIF_NOINLINE") != "" {
			break
		}
		// Fallback: a function that has a contract only because its name matches a schema (no contract
		// block of its own) and that fails, or is used by a function that fails, is verified as part of
		// its callers instead (its body is executed in place, like a helper without contract), when it
		// is loop-free and not recursive. This keeps helper extraction from raising an alarm; a real
		// defect still fails, in the caller.
		failedFn := map[string]bool{}
		for _, s := range sessions {
			bad := s.Unsup != ""
			for _, ob := range s.Obligs {
				if wantAll(ob) && !ob.Cover && !ob.Canary && ob.Result != "unsat" && !knownNames[ob.Name] {
					bad = true
				}
			}
			if bad {
				failedFn[s.Func] = true
			}
		}
		cand := map[string]bool{}
		for f := range failedFn {
			// only functions that did not exist on the unchanged tree (helpers a refactoring introduced):
			// a function that verified on its own before and fails now is a regression, not a candidate
			if c := g.cs.Funcs[f]; c != nil && c.SchemaOnly && !knownFunction(f) && g.inlinable(g.funcs[f]) {
				cand[f] = true
			}
			for callee := range g.uses[f] {
				if c := g.cs.Funcs[callee]; c != nil && c.SchemaOnly && !knownFunction(callee) && g.inlinable(g.funcs[callee]) && g.onlyCalledStatically(callee) {
					cand[callee] = true
				}
			}
		}
		if len(cand) == 0 {
			break
		}
		g.inlined = cand
		inlinedNote = sortedKeys(cand)
		fmt.Fprintf(os.Stderr, "inline fallback: %v\n", inlinedNote)
	}
	inlinedFuncs = inlinedNote
	violations := 0
	knownHits := 0
	var obligs []*Oblig
	var unsup []string
	engineErr := ""
	var funcs []string
	for _, s := range sessions {
		if s.Unsup != "" {
			unsup = append(unsup, s.Func+": "+s.Unsup)
			continue
		}
		n := 0
		for _, ob := range s.Obligs {
			if !want(ob) {
				if ob.Cover && ob.Result == "unsat" {
					if strings.Contains(ob.Name, "cover:requires") {
						engineErr = "vacuous contract: " + ob.Name + " (" + ob.Detail + ")"
					} else {
						// the invariant is unsatisfiable at the loop head: everything proved about the loop body is vacuous
						violations++
						fmt.Printf("VIOLATION property=%s replay=%s no-failing-input-found\n", id, writeReplayText(id, sanitize(ob.Name), "obligation "+ob.Name+": the loop invariant is unsatisfiable at the loop head, so the obligations of the loop body hold vacuously; the contract no longer describes the code"))
						fmt.Printf("  obligation %s (unsat cover) at %s:%d\n", ob.Name, shortFile(ob.Pos.Filename), ob.Pos.Line)
					}
				}
				continue
			}
			n++
			obligs = append(obligs, ob)
		}
		if n > 0 {
			funcs = append(funcs, s.Func)
		}
	}
	discharged := 0
	for _, ob := range obligs {
		if hasTag(ob.Tags, "canary") {
			if ob.Result != "sat" {
				engineErr = "canary " + ob.Name + " was not refuted (" + ob.Result + ")"
			} else {
				discharged++
			}
			continue
		}
		if ob.Result == "unsat" {
			discharged++
			continue
		}
		if ob.Result == "error" {
			engineErr = "solver error on " + ob.Name + ": " + ob.Model
			continue
		}
		if f, ok := known[ob.Name]; ok {
			knownHits++
			fmt.Printf("KNOWN-FINDING: property=%s %s %s\n", id, ob.Name, f.Text)
			continue
		}
		violations++
		path, confirmed := replayOblig(g, id, ob)
		suffix := ""
		if !confirmed {
			suffix = " no-failing-input-found"
		}
		fmt.Printf("VIOLATION property=%s replay=%s%s\n", id, path, suffix)
		fmt.Printf("  obligation %s (%s) at %s:%d: %s\n", ob.Name, ob.Result, shortFile(ob.Pos.Filename), ob.Pos.Line, ob.Detail)
	}
	// a function under contract that left the verifiable subset: every obligation it had is undecided
	for _, u := range unsup {
		violations++
		name := strings.SplitN(u, ":", 2)[0]
		fmt.Printf("VIOLATION property=%s replay=%s no-failing-input-found\n", id, writeReplayText(id, sanitize(name)+"_unsupported", "function under contract can no longer be verified: "+u))
		fmt.Printf("  %s\n", u)
	}
	// a known finding that no longer fails is reported (the file should be cleaned), never suppresses anything
	for name := range known {
		found := false
		for _, ob := range obligs {
			if ob.Name == name && ob.Result != "unsat" {
				found = true
			}
		}
		if !found {
			fmt.Printf("NOTE: known finding %s no longer fails (or no longer exists) on this tree\n", name)
		}
	}
	extra := runAux(g, id, tier)
	violations += extra.violations
	if len(obligs) == 0 && extra.obligations == 0 {
		engineErr = "no obligations generated for " + id
	}
	writeEvidence(id, tier, seed, obligs, funcs, g, time.Since(t0), violations, &extra, unsup)
	fmt.Printf("%s %s: %d obligations, %d discharged, %d known findings, %d violations, %d functions, %.1fs\n", id, tier, len(obligs)+extra.obligations, discharged+extra.discharged, knownHits, violations, len(funcs), time.Since(t0).Seconds())
	if engineErr != "" {
		fmt.Fprintln(os.Stderr, "ENGINE-ERROR:", engineErr)
		return 2
	}
	if violations > 0 {
		return 1
	}
	return 0
}

type auxResult struct {
	obligations int
	discharged  int
	violations  int
	samples     []string
	notes       []string
	assumptions []string
}

// runAux runs the non-SSA engines (catalog, frames) that serve a property. Filled in by other files.
var auxEngines = map[string]func(g *Gen, id, tier string) auxResult{}

func runAux(g *Gen, id, tier string) auxResult {
	if f, ok := auxEngines[id]; ok {
		return f(g, id, tier)
	}
	return auxResult{}
}

func obligInProperty(ob *Oblig, id string) bool { return true }

func contractMentions(c *Contract, id string) bool {
	if hasTag(c.Props, id) {
		return true
	}
	all := append(append([]*Clause{}, c.Requires...), c.Ensures...)
	for _, l := range c.Loops {
		all = append(all, l.Invariants...)
		all = append(all, l.Steps...)
	}
	for _, cl := range all {
		if hasTag(cl.Tags, id) {
			return true
		}
	}
	if id == "C03" || id == "C18" {
		return true // safety / frame obligations exist in every function
	}
	return false
}

func parallelDischarge(sessions []*Session, want func(*Oblig) bool, cfg SolverCfg) {
	done := make(chan struct{}, len(sessions))
	for _, s := range sessions {
		go func(s *Session) {
			Discharge(s, want, cfg)
			done <- struct{}{}
		}(s)
	}
	for range sessions {
		<-done
	}
}

func writeReplayText(id, name, text string) string {
	dir := filepath.Join(verifDir(), "replays", id)
	os.MkdirAll(dir, 0o755)
	p := filepath.Join(dir, name+".txt")
	os.WriteFile(p, []byte(text+"\n"), 0o644)
	return p
}

// replayOblig writes the replay file of a failed obligation and tries to reproduce the failure
// on the real code (see replay.go). Returns the path and whether a failing input was found.
func replayOblig(g *Gen, id string, ob *Oblig) (string, bool) {
	var b strings.Builder
	fmt.Fprintf(&b, "property: %s\nobligation: %s\nkind: %s\nfunction: %s\nlocation: %s:%d\nclause: %s\nsolver: %s result: %s\n", id, ob.Name, ob.Kind, ob.Func, shortFile(ob.Pos.Filename), ob.Pos.Line, ob.Detail, ob.Solver, ob.Result)
	confirmed := false
	if ob.Result == "sat" {
		input, report, ok := concreteReplay(g, id, ob)
		if input != "" {
			fmt.Fprintf(&b, "candidate input from the solver model: %q\n", input)
		}
		if report != "" {
			fmt.Fprintf(&b, "replay on the real code:\n%s\n", report)
		}
		confirmed = ok
		if ob.Model != "" {
			m := ob.Model
			if len(m) > 20000 {
				m = m[:20000] + "\n... (truncated)"
			}
			fmt.Fprintf(&b, "solver model:\n%s\n", m)
		}
	} else {
		fmt.Fprintf(&b, "the solver gave no model (%s); the obligation is one that discharges on the unchanged tree\n", ob.Result)
	}
	if !confirmed {
		b.WriteString("no-failing-input-found\n")
	}
	return writeReplayText(id, sanitize(strings.TrimPrefix(ob.Name, "memefish.")), b.String()), confirmed
}

func writeEvidence(id, tier string, seed int, obligs []*Oblig, funcs []string, g *Gen, wall time.Duration, violations int, aux *auxResult, unsup []string) {
	ev := evidence{PropertyID: id, Tier: tier, Seed: seed, Level: "proof", Coverage: map[string]interface{}{}, WallS: wall.Seconds(), Violations: violations}
	discharged := 0
	byKind := map[string]int{}
	bySolver := map[string]int{}
	var samples []interface{}
	var failed []string
	var knownList []string
	nKnown := 0
	for _, ob := range obligs {
		if knownNames[ob.Name] && ob.Result != "unsat" {
			nKnown++
			knownList = append(knownList, ob.Name+" ("+ob.Result+")")
			continue
		}
		byKind[ob.Kind]++
		ok := ob.Result == "unsat" || (hasTag(ob.Tags, "canary") && ob.Result == "sat")
		if ok {
			discharged++
			bySolver[ob.Solver]++
		} else {
			failed = append(failed, ob.Name+" ("+ob.Result+")")
		}
		if len(samples) < 8 && (len(samples) == 0 || ob.Kind != obligs[0].Kind || len(samples) < 3) {
			samples = append(samples, map[string]interface{}{"obligation": ob.Name, "kind": ob.Kind, "clause": ob.Detail, "result": ob.Result, "solver": ob.Solver, "at": fmt.Sprintf("%s:%d", shortFile(ob.Pos.Filename), ob.Pos.Line)})
		}
	}
	n := len(obligs) - nKnown
	if aux != nil {
		n += aux.obligations
		discharged += aux.discharged
		for _, s := range aux.samples {
			if len(samples) < 16 {
				samples = append(samples, s)
			}
		}
	}
	sort.Strings(funcs)
	if knownList == nil {
		knownList = []string{}
	}
	ev.Coverage["known_findings"] = knownList
	ev.Coverage["obligations"] = n
	ev.Coverage["discharged"] = discharged
	ev.Coverage["checker_cmd"] = fmt.Sprintf("/verif/check %s %s   (vcgen: weakest-precondition style VC generation over go/ssa of /repo's working tree; z3 4.8.12 incremental, z3 5.1.0 and cvc5 1.0 raced on anything not unsat)", id, tier)
	var trusted []string
	if g != nil {
		for k := range g.trustedUsed {
			trusted = append(trusted, k)
		}
	}
	sort.Strings(trusted)
	if trusted == nil {
		trusted = []string{}
	}
	ev.Coverage["trusted_base"] = trusted
	ev.Coverage["samples"] = samples
	ev.Coverage["functions_under_contract"] = funcs
	ev.Coverage["obligations_by_kind"] = byKind
	ev.Coverage["discharged_by_solver"] = bySolver
	ev.Coverage["solver_seconds"] = solverSeconds
	ev.Coverage["not_discharged"] = failed
	ev.Coverage["functions_outside_subset"] = unsup
	var assumed []string
	for _, sname := range sortedKeys(sessionByFunc) {
		own := false
		if g != nil && g.cs != nil {
			if c := g.cs.Funcs[sname]; c != nil {
				for _, pr := range c.Props {
					if pr == id {
						own = true
					}
				}
			}
		}
		for _, a := range sessionByFunc[sname].Assumed {
			isPos := strings.Contains(a, "/post:") || strings.Contains(a, "/inv")
			if strings.Contains(a, "("+id) || own && !isPos || (id == "C05" || id == "C06") && isPos {
				assumed = append(assumed, a)
			}
		}
	}
	if assumed == nil {
		assumed = []string{}
	}
	ev.Coverage["clauses_assumed_not_proved"] = assumed
	if g != nil && g.cs != nil {
		ev.Coverage["contract_files"] = relFiles(g.cs.Files)
		ev.Coverage["contract_lines"] = g.cs.Lines
	}
	if aux != nil && len(aux.notes) > 0 {
		ev.Coverage["notes"] = aux.notes
	}
	ev.Assumptions = []string{
		"the VC generator itself (go/ssa -> SMT translation, component memory model, value-semantic slices, append modelled without aliasing)",
		"go/ssa and go/types (golang.org/x/tools v0.29.0) read the source as the compiler does",
		"integers are mathematical (no overflow: offsets and lengths stay far below 2^63); uint8 arithmetic wraps",
		"trusted contracts of external functions listed in coverage.trusted_base",
		"an obligation is accepted when one solver answers unsat; in the thorough tier the clauses that state the property (not the safety and frame obligations) are re-decided standalone by z3 4.8.12, z3 5.1.0 and cvc5 1.0 and must agree, up to a budget of VERIF_XCHECK (default 600) obligations chosen by name hash and VERIF_SEED; coverage.cross_checked says how many were",
		"a check discharges the obligations tagged with its property and assumes the clauses of the other claimed properties on the same functions; those are discharged by the checks of their own properties (tools/runall.sh runs all). A clause with explicit property tags is a hypothesis only for later clauses that share a tag; a clause listed as a known finding is never a hypothesis",
	}
	ev.Coverage["cross_checked"] = XcheckDone
	if len(inlinedFuncs) > 0 {
		ev.Coverage["verified_inlined_into_callers"] = inlinedFuncs
	}
	if aux != nil {
		ev.Assumptions = append(ev.Assumptions, aux.assumptions...)
	}
	ev.Assumptions = append(ev.Assumptions, propertyAssumptions[id]...)
	os.MkdirAll(filepath.Join(verifDir(), "evidence"), 0o755)
	b, _ := json.MarshalIndent(ev, "", " ")
	os.WriteFile(filepath.Join(verifDir(), "evidence", id+".json"), append(b, '\n'), 0o644)
}

var propertyAssumptions = map[string][]string{}
var knownNames = map[string]bool{}
var inlinedFuncs []string

func relFiles(fs []string) []string {
	var out []string
	for _, f := range fs {
		out = append(out, shortFile(f))
	}
	return out
}

// concreteReplay is replaced in replay.go when a concrete oracle exists for the property.
var concreteReplayers = map[string]func(g *Gen, ob *Oblig) (string, string, bool){}

func concreteReplay(g *Gen, id string, ob *Oblig) (string, string, bool) {
	if f, ok := concreteReplayers[id]; ok {
		return f(g, ob)
	}
	return "", "", false
}
