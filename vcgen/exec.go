package main

// Symbolic executor over go/ssa: generates verification conditions for one function under contract.

import (
	"fmt"
	"go/constant"
	"go/token"
	"go/types"
	"sort"
	"strings"

	"golang.org/x/tools/go/ssa"
)

type State struct {
	heap  map[string]string // leaf name -> array term; missing = initial heap constant
	now   string
	reach string
}

func (st *State) clone() *State {
	h := make(map[string]string, len(st.heap))
	for k, v := range st.heap {
		h[k] = v
	}
	return &State{heap: h, now: st.now, reach: st.reach}
}

type Exit struct {
	Kind    string // "return" | "panic"
	St      *State
	Results []Val
	PanicV  Val    // for panic exits: the panic value (IfV) if known
	Why     string // description for panic exits
	Pos     token.Pos
	Allowed string // for call-induced panics: nothing
	Checked bool
	Fr      *frame
	Blk     *ssa.BasicBlock
}

type fnExec struct {
	g    *Gen
	s    *Session
	fn   *ssa.Function
	c    *Contract
	pre  *State // entry state (for old())
	penv map[string]TV
	lets map[string]TV
	// boxed non-pointer values held in interfaces, by ref term
	boxed   map[string]TV
	renamed     []string // locals resolved through their recorded shape (contract name -> current name)
	lastPFParts []string
	lastPFDesc  []string
	depth   int
	nret    int
	kwCache map[StrV]string
	unfolded map[string]bool
	ghostUsed map[string]bool
	nodeRefs []string // addresses of AST nodes the function holds references to (for ghost frames)
	objs    map[string][]string // heap type -> addresses of objects the function holds direct references to
	strLits map[string]StrV
}

type TV struct {
	V Val
	T types.Type
}

// frame: one activation of an SSA function body
type frame struct {
	fx      *fnExec
	lastRuneValid string // range over string: whether the last element was a valid encoding
	fparamStrong map[string]string // strong(...) of the method values passed to the call being applied
	fn      *ssa.Function
	c       *Contract // loop contracts (nil for inlined closures)
	vals    map[ssa.Value]Val
	names   map[string][]ssa.Value // debug names -> values (in definition order)
	params  []Val
	free    []Val
	defers  []*ssa.Defer
	exits   []*Exit
	recoverV *IfV // value returned by recover() in this frame (inlined deferred closures)
	recovered bool
	havocRefs   []havocRef
	cells       map[string]*ssa.Alloc // address-taken variables by name
	sliceOrigin map[ssa.Value]PtrV // slices of local arrays (a callee may write through them)
	top       bool // the activation of the function under contract itself
	loops   map[*ssa.BasicBlock]*loopInfo
	dom     map[*ssa.BasicBlock]map[*ssa.BasicBlock]bool
}

type loopInfo struct {
	header  *ssa.BasicBlock
	blocks  map[*ssa.BasicBlock]bool
	ordinal int
	backs   []*ssa.BasicBlock
	// saved at header
	hdrState *State
	phiVals  map[*ssa.Phi]Val
	variant0 string
	entryVals  map[*ssa.Phi]Val // values of the header phis when the loop is entered
	entryState *State
	envNames map[string]TV
}

func (fx *fnExec) heapLeaf(st *State, leaf string, sort Sort) string {
	if old, ok := fx.g.leafSorts[leaf]; ok && old != sort {
		panic(fmt.Sprintf("leaf %s has sorts %s and %s", leaf, old, sort))
	}
	fx.g.leafSorts[leaf] = sort
	if t, ok := st.heap[leaf]; ok {
		return t
	}
	return fx.s.decl("H0!"+leaf, arrOf(sort))
}

func (fx *fnExec) posOf(p token.Pos) token.Position {
	return fx.g.prog.Fset.Position(p)
}

// ---- loads and stores

func (fx *fnExec) load(st *State, p PtrV) Val {
	ls := fx.g.leaves(p.Elem)
	terms := make([]string, len(ls))
	for i, l := range ls {
		arr := fx.heapLeaf(st, p.HT+p.Path+l.Path, l.S)
		terms[i] = sel(arr, p.Addr)
		if l.Ref {
			fx.g.leafRef[p.HT+p.Path+l.Path] = true
		}
	}
	v := fx.g.fromLeaves(p.Elem, terms)
	return v
}

func (fx *fnExec) storeVal(st *State, p PtrV, v Val) {
	ls := fx.g.leaves(p.Elem)
	terms := fx.g.toLeaves(v)
	if len(terms) != len(ls) {
		panic(unsupported(fmt.Sprintf("store: leaf mismatch for %v: %d vs %d", p.Elem, len(terms), len(ls))))
	}
	for i, l := range ls {
		name := p.HT + p.Path + l.Path
		arr := fx.heapLeaf(st, name, l.S)
		st.heap[name] = fx.s.define("H!"+name, arrOf(l.S), store(arr, p.Addr, terms[i]))
		if l.Ref {
			fx.g.leafRef[name] = true
		}
	}
}

// ---- constants

func (fx *fnExec) strLit(s string) StrV {
	if v, ok := fx.strLits[s]; ok {
		return v
	}
	arr := fx.s.fresh("strlit", arrOf(SInt))
	for i := 0; i < len(s); i++ {
		fx.s.assert(eq(sel(arr, num(int64(i))), num(int64(s[i]))))
	}
	v := StrV{arr, "0", num(int64(len(s)))}
	fx.strLits[s] = v
	return v
}

func (fx *fnExec) constVal(c *ssa.Const) Val {
	t := c.Type()
	if c.Value == nil {
		return fx.g.zero(t)
	}
	switch c.Value.Kind() {
	case constant.Bool:
		if constant.BoolVal(c.Value) {
			return Sc{"true", SBool}
		}
		return Sc{"false", SBool}
	case constant.String:
		return fx.strLit(constant.StringVal(c.Value))
	case constant.Int:
		if v, ok := constant.Int64Val(c.Value); ok {
			return Sc{num(v), SInt}
		}
		return Sc{c.Value.ExactString(), SInt}
	}
	panic(unsupported("constant kind " + c.Value.Kind().String()))
}

// ---- running a body

func (g *Gen) newFrame(fx *fnExec, fn *ssa.Function, c *Contract) *frame {
	fr := &frame{fx: fx, fn: fn, c: c, vals: map[ssa.Value]Val{}, names: map[string][]ssa.Value{}}
	fr.findLoops()
	return fr
}

func (fr *frame) val(v ssa.Value) Val {
	switch x := v.(type) {
	case *ssa.Const:
		return fr.fx.constVal(x)
	case *ssa.Function:
		return FuncV{Fn: x}
	case *ssa.Global:
		return PtrV{Addr: "1", HT: "global:" + x.Pkg.Pkg.Name() + "." + x.Name(), Elem: x.Type().(*types.Pointer).Elem()}
	case *ssa.Builtin:
		panic(unsupported("builtin as value " + x.Name()))
	}
	if r, ok := fr.vals[v]; ok {
		return r
	}
	panic(unsupported(fmt.Sprintf("value %s (%T) used before definition in %s", v.Name(), v, fr.fn.Name())))
}

func (fr *frame) findLoops() {
	fn := fr.fn
	fr.loops = map[*ssa.BasicBlock]*loopInfo{}
	if len(fn.Blocks) == 0 {
		return
	}
	for _, b := range fn.Blocks {
		for _, s := range b.Succs {
			if s.Dominates(b) { // back edge b -> s
				li := fr.loops[s]
				if li == nil {
					li = &loopInfo{header: s, blocks: map[*ssa.BasicBlock]bool{s: true}}
					fr.loops[s] = li
				}
				li.backs = append(li.backs, b)
				// natural loop: all blocks that reach b without passing s
				var stack []*ssa.BasicBlock
				if !li.blocks[b] {
					li.blocks[b] = true
					stack = append(stack, b)
				}
				for len(stack) > 0 {
					x := stack[len(stack)-1]
					stack = stack[:len(stack)-1]
					for _, p := range x.Preds {
						if !li.blocks[p] {
							li.blocks[p] = true
							stack = append(stack, p)
						}
					}
				}
			}
		}
	}
	// ordinals by source position of the header
	var hs []*loopInfo
	for _, li := range fr.loops {
		hs = append(hs, li)
	}
	minPos := func(li *loopInfo) token.Pos {
		var m token.Pos
		for _, in := range li.header.Instrs {
			if p := in.Pos(); p != token.NoPos && (m == token.NoPos || p < m) {
				m = p
			}
		}
		if m == token.NoPos {
			// fall back on any block of the loop
			for b := range li.blocks {
				for _, in := range b.Instrs {
					if p := in.Pos(); p != token.NoPos && (m == token.NoPos || p < m) {
						m = p
					}
				}
			}
		}
		return m
	}
	sort.Slice(hs, func(i, j int) bool {
		pi, pj := minPos(hs[i]), minPos(hs[j])
		if pi != pj {
			return pi < pj
		}
		return hs[i].header.Index < hs[j].header.Index
	})
	for i, li := range hs {
		li.ordinal = i
	}
}

type edge struct {
	from *ssa.BasicBlock
	st   *State
	cond string
}

// run executes the body from state st. Returns the exits (returns and panics).
func (fr *frame) run(st *State) []*Exit {
	fx := fr.fx
	fn := fr.fn
	if len(fn.Blocks) == 0 {
		panic(unsupported("no body for " + fn.String()))
	}
	// reverse postorder ignoring back edges
	order := fr.rpo()
	in := map[*ssa.BasicBlock][]edge{}
	in[fn.Blocks[0]] = []edge{{from: nil, st: st, cond: st.reach}}
	for _, b := range order {
		if b == fn.Recover {
			continue
		}
		edges := in[b]
		if len(edges) == 0 {
			continue // unreachable
		}
		cur := fr.enterBlock(b, edges)
		if cur == nil {
			continue
		}
		fr.execBlock(b, cur, in)
	}
	_ = fx
	return fr.exits
}

func (fr *frame) rpo() []*ssa.BasicBlock {
	seen := map[*ssa.BasicBlock]bool{}
	var post []*ssa.BasicBlock
	var dfs func(b *ssa.BasicBlock)
	dfs = func(b *ssa.BasicBlock) {
		seen[b] = true
		for _, s := range b.Succs {
			if s.Dominates(b) {
				continue
			}
			if !seen[s] {
				dfs(s)
			}
		}
		post = append(post, b)
	}
	dfs(fr.fn.Blocks[0])
	for i, j := 0, len(post)-1; i < j; i, j = i+1, j-1 {
		post[i], post[j] = post[j], post[i]
	}
	return post
}

// mergeStates builds the state at a join from incoming edges.
func (fr *frame) mergeStates(b *ssa.BasicBlock, edges []edge) *State {
	fx := fr.fx
	if len(edges) == 1 {
		st := edges[0].st.clone()
		if edges[0].cond != st.reach {
			r := fx.s.fresh(fmt.Sprintf("B%d", b.Index), SBool)
			fx.s.assert(eq(r, edges[0].cond))
			st.reach = r
		}
		return st
	}
	var conds []string
	for _, e := range edges {
		conds = append(conds, e.cond)
	}
	r := fx.s.fresh(fmt.Sprintf("B%d", b.Index), SBool)
	fx.s.assert(eq(r, or(conds...)))
	st := &State{heap: map[string]string{}, reach: r}
	// heap leaves
	keys := map[string]bool{}
	for _, e := range edges {
		for k := range e.st.heap {
			keys[k] = true
		}
	}
	for _, k := range sortedKeys(keys) {
		sort_ := fx.g.leafSorts[k]
		var terms []string
		same := true
		for _, e := range edges {
			t, ok := e.st.heap[k]
			if !ok {
				t = fx.s.decl("H0!"+k, arrOf(sort_))
			}
			terms = append(terms, t)
			if t != terms[0] {
				same = false
			}
		}
		if same {
			st.heap[k] = terms[0]
			continue
		}
		m := terms[len(terms)-1]
		for i := len(terms) - 2; i >= 0; i-- {
			m = ite(edges[i].cond, terms[i], m)
		}
		c := fx.s.fresh("Hm!"+k, arrOf(sort_))
		fx.s.assert(eq(c, m))
		st.heap[k] = c
	}
	// now
	nows := []string{}
	sameNow := true
	for _, e := range edges {
		nows = append(nows, e.st.now)
		if e.st.now != nows[0] {
			sameNow = false
		}
	}
	if sameNow {
		st.now = nows[0]
	} else {
		n := fx.s.fresh("now", SInt)
		for i, e := range edges {
			fx.s.assert(implies(e.cond, app(">=", n, nows[i])))
		}
		st.now = n
	}
	return st
}

func (fr *frame) mergeVals(t types.Type, edges []edge, vs []Val) Val {
	fx := fr.fx
	ls := fx.g.leaves(t)
	all := make([][]string, len(vs))
	for i, v := range vs {
		if p, ok := v.(PtrV); ok && p.Path != "" {
			// interior pointers can be merged only if identical
			for _, w := range vs {
				q, ok := w.(PtrV)
				if !ok || q.Path != p.Path || q.HT != p.HT || q.Addr != p.Addr {
					panic(unsupported("phi of interior pointers"))
				}
			}
			return p
		}
		all[i] = fx.g.toLeaves(v)
	}
	out := make([]string, len(ls))
	for li := range ls {
		m := all[len(vs)-1][li]
		same := true
		for i := range vs {
			if all[i][li] != all[0][li] {
				same = false
			}
		}
		if same {
			out[li] = all[0][li]
			continue
		}
		for i := len(vs) - 2; i >= 0; i-- {
			m = ite(edges[i].cond, all[i][li], m)
		}
		out[li] = fx.s.define("phi", ls[li].S, m)
	}
	res := fx.g.fromLeaves(t, out)
	// keep heap type of pointers when all agree (fromLeaves derives it from the static type)
	return res
}

func (fr *frame) enterBlock(b *ssa.BasicBlock, edges []edge) *State {
	fx := fr.fx
	li := fr.loops[b]
	// forward edges only (back edges are handled when they are produced)
	st := fr.mergeStates(b, edges)
	// phis from forward edges
	phiInit := map[*ssa.Phi]Val{}
	for _, instr := range b.Instrs {
		phi, ok := instr.(*ssa.Phi)
		if !ok {
			break
		}
		var vs []Val
		for _, e := range edges {
			idx := -1
			for i, p := range b.Preds {
				if p == e.from {
					idx = i
				}
			}
			if idx < 0 {
				panic("phi: predecessor not found")
			}
			vs = append(vs, fr.val(phi.Edges[idx]))
		}
		phiInit[phi] = fr.mergeVals(phi.Type(), edges, vs)
	}
	if li == nil {
		for phi, v := range phiInit {
			fr.vals[phi] = v
			fr.noteName(phi)
		}
		return st
	}
	// ---- loop header
	if fr.c == nil {
		panic(unsupported("loop in a function without contract: " + fr.fn.String()))
	}
	lc := fr.loopContract(li)
	if lc == nil {
		panic(unsupported(fmt.Sprintf("loop %d of %s has no invariant", li.ordinal, fr.fn.String())))
	}
	s := fx.s
	s.comment(fmt.Sprintf("loop %d header (block %d)", li.ordinal, b.Index))
	// 1. invariant on entry
	for phi, v := range phiInit {
		fr.vals[phi] = v
		fr.noteName(phi)
	}
	li.entryVals = phiInit
	li.entryState = st.clone()
	envInit := fr.loopEnv(li, st)
	for k, inv := range lc.Invariants {
		t := fx.evalBool(inv.E, envInit)
		label := inv.Label
		if label == "" {
			label = fmt.Sprintf("L%d.%d", li.ordinal, k)
		} else {
			label = fmt.Sprintf("L%d.%s", li.ordinal, label)
		}
		if reason, skip := fx.g.cs.Unproved[fr.c.Func][inv.Label]; skip && inv.Label != "" {
			s.Assumed = appendUnique(s.Assumed, fmt.Sprintf("%s/inv:%s is assumed at the loop head but not proved (%s)", fr.c.Func, inv.Label, reason))
			continue
		}
		s.oblig("inv-init", label, fr.c.tagsFor(inv), st.reach, t, fx.posOf(b.Instrs[0].Pos()), inv.Src)
	}
	// 2. havoc
	hst := st.clone()
	fr.havocLoop(li, hst)
	for _, instr := range b.Instrs {
		phi, ok := instr.(*ssa.Phi)
		if !ok {
			break
		}
		fr.vals[phi] = fr.freshVal("loop!"+phi.Comment, phi.Type())
		fr.assumeTypeFacts(hst, fr.vals[phi], phi.Type())
	}
	n := s.fresh("now", SInt)
	s.assert(app(">=", n, st.now))
	hst.now = n
	// a reference held in the heap at the loop head was allocated before the loop head
	for _, hr := range fr.havocRefs {
		if hr.addr != "" {
			s.assert(app("<", app("birth", sel(hst.heap[hr.leaf], hr.addr)), n))
		} else {
			o := sym(fmt.Sprintf("o!h%d", len(s.Items)))
			s.assert(fmt.Sprintf("(forall ((%s Int)) (! (< (birth (select %s %s)) %s) :pattern ((select %s %s))))", o, hst.heap[hr.leaf], o, n, hst.heap[hr.leaf], o))
		}
	}
	fr.havocRefs = nil
	r := s.fresh(fmt.Sprintf("B%dh", b.Index), SBool)
	s.assert(implies(r, st.reach)) // an arbitrary iteration is reached only through the loop entry
	hst.reach = r
	// 3. assume invariant
	env := fr.loopEnv(li, hst)
	for _, inv := range lc.Invariants {
		s.assert(implies(r, fx.evalBool(inv.E, env)))
	}
	if lc.Decreases != nil {
		v := fx.evalInt(lc.Decreases.E, env)
		li.variant0 = s.define("variant", SInt, v)
	}
	li.hdrState = hst.clone()
	// cover: the loop head is reachable with the invariant
	s.cover("cover", fmt.Sprintf("loop%d", li.ordinal), []string{"vacuity"}, r, fx.posOf(b.Instrs[0].Pos()), "loop head reachable under its invariant")
	return hst
}

func (fr *frame) noteName(v ssa.Value) {
	if phi, ok := v.(*ssa.Phi); ok && phi.Comment != "" {
		fr.names[phi.Comment] = append(fr.names[phi.Comment], v)
	}
}

func (fr *frame) freshVal(prefix string, t types.Type) Val {
	fx := fr.fx
	ls := fx.g.leaves(t)
	terms := make([]string, len(ls))
	for i, l := range ls {
		terms[i] = fx.s.fresh(prefix+l.Path, l.S)
	}
	return fx.g.fromLeaves(t, terms)
}

// assumeTypeFacts adds facts true of every Go value of the type: integer ranges of small types,
// non-negative lengths, allocation time of pointers.
func (fr *frame) assumeTypeFacts(st *State, v Val, t types.Type) {
	fx := fr.fx
	s := fx.s
	switch x := v.(type) {
	case Sc:
		if b, ok := t.Underlying().(*types.Basic); ok {
			switch b.Kind() {
			case types.Uint8:
				s.assert(and(app("<=", "0", x.T), app("<=", x.T, "255")))
			case types.Int32: // rune
				s.assert(and(app("<=", "(- 2147483648)", x.T), app("<=", x.T, "2147483647")))
			case types.Uint, types.Uint16, types.Uint32, types.Uint64, types.Uintptr:
				s.assert(app("<=", "0", x.T))
			}
		}
	case StrV:
		s.assert(and(app("<=", "0", x.Len), app("<=", "0", x.Off)))
	case SliceV:
		s.assert(and(app("<=", "0", x.Len), implies(x.Nil, eq(x.Len, "0"))))
		// references held in a slice were allocated before now
		if len(x.Elems) > 0 {
			et := x.Elem.Underlying()
			_, isPtr := et.(*types.Pointer)
			_, isIf := et.(*types.Interface)
			if isPtr || isIf {
				arr := x.Elems[len(x.Elems)-1] // pointer: the only leaf; interface: .ref is the last leaf
				k := sym(fmt.Sprintf("k!t%d", len(s.Items)))
				s.assert(fmt.Sprintf("(forall ((%s Int)) (! (=> (and (<= 0 %s) (< %s %s)) (< (birth (select %s %s)) %s)) :pattern ((select %s %s))))", k, k, k, x.Len, arr, k, st.now, arr, k))
				s.usesQuant = true
			}
		}
	case PtrV:
		s.assert(and(app("<=", "0", x.Addr), app("<", app("birth", x.Addr), st.now)))
	case IfV:
		s.assert(and(app("<=", "0", x.Tag), app("<=", "0", x.Ref), app("<", app("birth", x.Ref), st.now)))
		s.assert(implies(eq(x.Tag, "0"), eq(x.Ref, "0")))
	case StructV:
		st_ := structOf(x.T)
		for i, f := range x.F {
			fr.assumeTypeFacts(st, f, st_.Field(i).Type())
		}
	case TupleV:
		tt := t.(*types.Tuple)
		for i, f := range x.V {
			fr.assumeTypeFacts(st, f, tt.At(i).Type())
		}
	}
}

// loopEnv: names visible in loop invariants at header li.
func (fr *frame) loopEnv(li *loopInfo, st *State) *Env {
	env := fr.fx.baseEnv(st)
	env.fr = fr
	env.at = li.header
	env.entryVals = li.entryVals
	env.entryState = li.entryState
	return env
}

// havocLoop replaces every heap leaf that may be written in the loop by a fresh array
// (or a point update when the written address is loop-invariant).
func (fr *frame) havocLoop(li *loopInfo, st *State) {
	fx := fr.fx
	type target struct {
		leaf   string
		sort   Sort
		addr   string // "" = whole array
		except string
	}
	var targets []target
	addTarget := func(leaf string, sort Sort, addr string) {
		targets = append(targets, target{leaf, sort, addr, ""})
	}
	entryNow := st.now
	definedOutside := func(v ssa.Value) bool {
		switch x := v.(type) {
		case *ssa.Parameter, *ssa.FreeVar, *ssa.Const, *ssa.Global, *ssa.Function:
			return true
		case ssa.Instruction:
			return !li.blocks[x.Block()]
		}
		return false
	}
	var blocks []*ssa.BasicBlock
	for b := range li.blocks {
		blocks = append(blocks, b)
	}
	sort.Slice(blocks, func(i, j int) bool { return blocks[i].Index < blocks[j].Index })
	// pre-pass: names of the leaves that may be written in the loop (independent of addresses)
	written := map[string]bool{}
	for _, b := range blocks {
		for _, in := range b.Instrs {
			switch x := in.(type) {
			case *ssa.Store:
				if root := addrRoot(x.Addr); root != nil {
					if al, isAlloc := root.(*ssa.Alloc); isAlloc && li.blocks[al.Block()] {
						continue
					}
				}
				if base, path, elem, ok := fr.staticAddr(x.Addr); ok {
					bt := base.Type().Underlying().(*types.Pointer).Elem()
					ht := fx.g.heapTypeName(bt)
					if pv, isP := fr.vals[base].(PtrV); isP && definedOutside(base) {
						ht = pv.HT + pv.Path
					}
					for _, l := range fx.g.leaves(elem) {
						written[ht+path+l.Path] = true
					}
				}
			case *ssa.Next:
				written[rangeLeaf] = true
			case ssa.CallInstruction:
				cc := x.Common()
				if callee := cc.StaticCallee(); callee != nil {
					if c2 := fx.g.contractFor(callee); c2 != nil && c2.PanicKind != "always" {
						var as []Val
						for _, a := range cc.Args {
							as = append(as, fr.freshVal("hv", a.Type()))
						}
						for _, m := range c2.Modifies {
							for _, l := range fx.modLocs(callee, c2, m, as, st) {
								written[l.leaf] = true
							}
						}
					}
				}
			}
		}
	}
	viaWritten := func(leaves []string) bool {
		for _, l := range leaves {
			if written[l] {
				return true
			}
		}
		return false
	}
	// a load (inside the loop) of a field that no iteration writes, through a loop-invariant base,
	// has the same value in every iteration: it is evaluated in the state at loop entry
	var invariantVal func(v ssa.Value) (Val, bool)
	invariantVal = func(v ssa.Value) (Val, bool) {
		if definedOutside(v) {
			return fr.val(v), true
		}
		switch x := v.(type) {
		case *ssa.UnOp:
			if x.Op != token.MUL {
				return nil, false
			}
			pv, ok := invariantVal(x.X)
			if !ok {
				return nil, false
			}
			p, isP := pv.(PtrV)
			if !isP || strings.HasPrefix(p.HT, "global:") {
				return nil, false
			}
			for _, l := range fx.g.leaves(p.Elem) {
				if written[p.HT+p.Path+l.Path] {
					return nil, false
				}
			}
			return fx.load(st, p), true
		case *ssa.FieldAddr:
			pv, ok := invariantVal(x.X)
			if !ok {
				return nil, false
			}
			p, isP := pv.(PtrV)
			if !isP {
				return nil, false
			}
			f := structOf(p.Elem).Field(x.Field)
			return PtrV{Addr: p.Addr, HT: p.HT, Path: p.Path + "." + f.Name(), Elem: f.Type(), Local: p.Local}, true
		}
		return nil, false
	}
	for _, b := range blocks {
		for _, in := range b.Instrs {
			switch x := in.(type) {
			case *ssa.Next:
				if it, ok := fr.vals[x.Iter].(RangeV); ok && definedOutside(x.Iter) {
					addTarget(rangeLeaf, SInt, it.Cell)
				} else {
					addTarget(rangeLeaf, SInt, "")
				}
			case *ssa.Store:
				// stores into objects allocated inside the loop body need no havoc
				if root := addrRoot(x.Addr); root != nil {
					if al, isAlloc := root.(*ssa.Alloc); isAlloc && li.blocks[al.Block()] {
						continue
					}
				}
				// find base pointer chain
				base, path, elem, ok := fr.staticAddr(x.Addr)
				if !ok {
					panic(unsupported("store through a computed address inside a loop"))
				}
				addr := ""
				if definedOutside(base) {
					if p, ok := fr.val(base).(PtrV); ok {
						addr = p.Addr
						for _, l := range fx.g.leaves(elem) {
							addTarget(p.HT+p.Path+path+l.Path, l.S, addr)
						}
						continue
					}
				}
				bt := base.Type().Underlying().(*types.Pointer).Elem()
				ht := fx.g.heapTypeName(bt)
				for _, l := range fx.g.leaves(elem) {
					addTarget(ht+path+l.Path, l.S, "")
				}
			case ssa.CallInstruction:
				cc := x.Common()
				callee := cc.StaticCallee()
				if callee == nil {
					if _, isB := cc.Value.(*ssa.Builtin); isB {
						continue
					}
					if cc.IsInvoke() {
						ic := fx.g.invokeContract(cc)
						if ic != nil && ic.Modifies != nil && len(ic.Modifies) == 0 {
							continue
						}
					}
					if par, ok := cc.Value.(*ssa.Parameter); ok && fx.c != nil && fx.c.FParams[par.Name()] != "" {
						sc := fx.g.schemaByName(fx.c.FParams[par.Name()])
						pv, has := fx.penv["p"]
						if sc != nil && has {
							env := &Env{fx: fx, vars: map[string]TV{"p": pv}, cur: st, old: st, pkg: fx.fn.Pkg.Pkg}
							for _, m := range sc.C.Modifies {
								for _, l := range fx.modLocsEnv(env, m, st) {
									if l.addr == "" && l.except != "" {
										targets = append(targets, target{l.leaf, l.sort, "", l.except})
									} else if l.addr != "" && !fr.leafWrittenInLoop(li, l.viaLeaves) && !viaWritten(l.viaLeaves) {
										addTarget(l.leaf, l.sort, l.addr)
									} else {
										addTarget(l.leaf, l.sort, "")
									}
								}
							}
							continue
						}
					}
					panic(unsupported("dynamic call inside a loop: " + in.String()))
				}
				c2 := fx.g.contractFor(callee)
				if c2 == nil {
					if fx.g.writesNothing(callee, 0) {
						continue // an inlined helper that only builds new objects: nothing to havoc
					}
					panic(unsupported("call to function without contract inside a loop: " + callee.String()))
				}
				if c2.PanicKind == "always" {
					continue // never returns normally: its effects cannot reach the loop head
				}
				for _, m := range c2.Modifies {
					// evaluate the modifies path with arguments that are loop-invariant
					allOutside := true
					var as []Val
					for _, a := range cc.Args {
						if v, ok := invariantVal(a); ok {
							as = append(as, v)
						} else {
							allOutside = false
							as = append(as, fr.freshVal("hv", a.Type()))
						}
					}
					locs := fx.modLocs(callee, c2, m, as, st)
					for _, l := range locs {
						switch {
						case l.addr == "" && l.except != "" && allOutside:
							// "current object or fresh": relative to the loop entry, the objects that
							// existed then and are not the current one are untouched by any iteration
							targets = append(targets, target{l.leaf, l.sort, "", l.except})
						case allOutside && l.addr != "" && !fr.leafWrittenInLoop(li, l.viaLeaves):
							addTarget(l.leaf, l.sort, l.addr)
						default:
							addTarget(l.leaf, l.sort, "")
						}
					}
				}
			}
		}
	}
	// ghost state of nodes: any iteration may build nodes or finish a node it holds
	ghostTouched := false
	ghostStores := false
	for _, b := range blocks {
		for _, in := range b.Instrs {
			switch x := in.(type) {
			case *ssa.Store:
				if pt, ok := x.Addr.Type().Underlying().(*types.Pointer); ok {
					_ = pt
				}
				if root := addrRoot(x.Addr); root != nil {
					if rp, ok := root.Type().Underlying().(*types.Pointer); ok && fx.g.isNodeHeapType(fx.g.heapTypeName(rp.Elem())) {
						ghostTouched = true
						if al, isAlloc := root.(*ssa.Alloc); !isAlloc || !li.blocks[al.Block()] {
							ghostStores = true // an existing node is finished in place: nothing is known about which
						}
					}
				}
			case ssa.CallInstruction:
				cc := x.Common()
				if callee := cc.StaticCallee(); callee != nil {
					if c2 := fx.g.contractFor(callee); c2 != nil && buildsNodes(c2) {
						ghostTouched = true
					}
				} else if _, isPar := cc.Value.(*ssa.Parameter); isPar {
					ghostTouched = true
				}
			}
		}
	}
	if ghostTouched {
		var touched []string
		if ghostStores {
			touched = fx.nodeRefs
		}
		fx.havocGhost(st, entryNow, touched)
	}
	done := map[string]bool{}
	// whole-array havocs first
	// a leaf havocked "except current-or-fresh" by every writer keeps the frame axiom; any plain
	// whole-array writer removes it
	plain := map[string]bool{}
	exc := map[string]string{}
	for _, t := range targets {
		if t.addr == "" {
			if t.except == "" {
				plain[t.leaf] = true
			} else if e, ok := exc[t.leaf]; ok && e != t.except {
				plain[t.leaf] = true
			} else {
				exc[t.leaf] = t.except
			}
		}
	}
	for _, t := range targets {
		if fx.g.leafRef[t.leaf] {
			fr.havocRefs = append(fr.havocRefs, havocRef{t.leaf, t.addr})
		}
	}
	for _, t := range targets {
		if t.addr == "" && !done[t.leaf] {
			done[t.leaf] = true
			old := fx.heapLeaf(st, t.leaf, t.sort)
			c := fx.s.fresh("Hl!"+t.leaf, arrOf(t.sort))
			st.heap[t.leaf] = c
			fx.g.leafSorts[t.leaf] = t.sort
			if !plain[t.leaf] && exc[t.leaf] != "" {
				// stores in the loop body to this leaf at other (old) objects would break the axiom:
				// only allowed when every writer is a current-or-fresh callee
				fx.frameAxiom(c, old, exc[t.leaf], entryNow, t.leaf)
			}
		}
	}
	for _, t := range targets {
		if done[t.leaf] {
			continue
		}
		key := t.leaf + "@" + t.addr
		if done[key] {
			continue
		}
		done[key] = true
		c := fx.s.fresh("hv!"+t.leaf, t.sort)
		arr := fx.heapLeaf(st, t.leaf, t.sort)
		st.heap[t.leaf] = fx.s.define("H!"+t.leaf, arrOf(t.sort), store(arr, t.addr, c))
		fx.g.leafSorts[t.leaf] = t.sort
	}
}

func (fr *frame) leafWrittenInLoop(li *loopInfo, leaves []string) bool {
	if len(leaves) == 0 {
		return false
	}
	// conservative: any store in the loop to one of these leaves
	for b := range li.blocks {
		for _, in := range b.Instrs {
			if st, ok := in.(*ssa.Store); ok {
				base, path, elem, ok := fr.staticAddr(st.Addr)
				if !ok {
					return true
				}
				bt := base.Type().Underlying().(*types.Pointer).Elem()
				ht := fr.fx.g.heapTypeName(bt)
				for _, l := range fr.fx.g.leaves(elem) {
					for _, w := range leaves {
						if ht+path+l.Path == w {
							return true
						}
					}
				}
			}
		}
	}
	return false
}

func addrRoot(v ssa.Value) ssa.Value {
	for {
		switch x := v.(type) {
		case *ssa.FieldAddr:
			v = x.X
		case *ssa.IndexAddr:
			v = x.X
		default:
			return v
		}
	}
}

// staticAddr follows FieldAddr chains to a base pointer value.
func (fr *frame) staticAddr(v ssa.Value) (base ssa.Value, path string, elem types.Type, ok bool) {
	switch x := v.(type) {
	case *ssa.FieldAddr:
		b, p, _, ok := fr.staticAddr(x.X)
		if !ok {
			return nil, "", nil, false
		}
		st := structOf(x.X.Type().Underlying().(*types.Pointer).Elem())
		f := st.Field(x.Field)
		return b, p + "." + f.Name(), f.Type(), true
	case *ssa.IndexAddr:
		if pt, isPtr := x.X.Type().Underlying().(*types.Pointer); isPtr {
			b, p, _, ok := fr.staticAddr(x.X)
			if !ok {
				return nil, "", nil, false
			}
			at := pt.Elem().Underlying().(*types.Array)
			// element leaves are arrays: treat as whole-object havoc of .elem leaves
			return b, p + ".elem", at.Elem(), false
		}
		return nil, "", nil, false
	default:
		pt, isPtr := v.Type().Underlying().(*types.Pointer)
		if !isPtr {
			return nil, "", nil, false
		}
		return v, "", pt.Elem(), true
	}
}

func (fr *frame) execBlock(b *ssa.BasicBlock, st *State, in map[*ssa.BasicBlock][]edge) {
	fx := fr.fx
	for _, instr := range b.Instrs {
		if _, ok := instr.(*ssa.Phi); ok {
			continue
		}
		switch x := instr.(type) {
		case *ssa.If:
			c := fr.val(x.Cond).(Sc).T
			fr.addEdge(b, b.Succs[0], st, and(st.reach, c), in)
			fr.addEdge(b, b.Succs[1], st, and(st.reach, not(c)), in)
			return
		case *ssa.Jump:
			fr.addEdge(b, b.Succs[0], st, st.reach, in)
			return
		case *ssa.Return:
			var rs []Val
			for _, r := range x.Results {
				rs = append(rs, fr.val(r))
			}
			ex := &Exit{Kind: "return", St: st, Results: rs, Pos: x.Pos(), Fr: fr, Blk: b}
			fr.exits = append(fr.exits, ex)
			if fr.top {
				fx.checkPost(ex)
			}
			return
		case *ssa.Panic:
			pv := fr.val(x.X)
			fr.exits = append(fr.exits, &Exit{Kind: "panic", St: st, PanicV: pv, Why: "panic statement", Pos: x.Pos()})
			return
		default:
			fr.exec(instr, st)
		}
	}
	_ = fx
}

func (fr *frame) addEdge(from, to *ssa.BasicBlock, st *State, cond string, in map[*ssa.BasicBlock][]edge) {
	fx := fr.fx
	if to.Dominates(from) && fr.loops[to] != nil {
		// back edge: check invariant and variant
		li := fr.loops[to]
		lc := fr.loopContract(li)
		s := fx.s
		bst := st.clone()
		bst.reach = cond
		// bind phi names to the incoming values of this edge
		idx := -1
		for i, p := range to.Preds {
			if p == from {
				idx = i
			}
		}
		saved := map[*ssa.Phi]Val{}
		for _, instr := range to.Instrs {
			phi, ok := instr.(*ssa.Phi)
			if !ok {
				break
			}
			saved[phi] = fr.vals[phi]
			fr.vals[phi] = fr.val(phi.Edges[idx])
		}
		env := fr.loopEnv(li, bst)
		pos := fx.posOf(firstPos(from))
		for k, inv := range lc.Invariants {
			t := fx.evalBool(inv.E, env)
			label := inv.Label
			if label == "" {
				label = fmt.Sprintf("L%d.%d", li.ordinal, k)
			} else {
				label = fmt.Sprintf("L%d.%s", li.ordinal, label)
			}
			if _, skip := fx.g.cs.Unproved[fr.c.Func][inv.Label]; skip && inv.Label != "" {
				continue
			}
			if reason, skip := fx.g.cs.Unproved[fr.c.Func][inv.Label+s.peekSuffix("inv-keep", label)]; skip && inv.Label != "" {
				// unproved on this back edge only (LABEL~N, N counted from 0 in generation order)
				s.Assumed = appendUnique(s.Assumed, fmt.Sprintf("%s/inv-keep:%s%s is not proved on this back edge (%s)", fr.c.Func, inv.Label, s.peekSuffix("inv-keep", label), reason))
				s.skipName("inv-keep", label)
				continue
			}
			s.oblig("inv-keep", label, fr.c.tagsFor(inv), cond, t, pos, inv.Src)
		}
		env.prevVals = saved
		env.prevState = li.hdrState
		env.stepFrom = from
		for k, stp := range lc.Steps {
			t := fx.evalBool(stp.E, env)
			label := stp.Label
			if label == "" {
				label = fmt.Sprintf("L%d.%d", li.ordinal, k)
			} else {
				label = fmt.Sprintf("L%d.%s", li.ordinal, label)
			}
			s.oblig("step", label, fr.c.tagsFor(stp), cond, t, pos, stp.Src)
		}
		if lc.Decreases != nil {
			v := fx.evalInt(lc.Decreases.E, env)
			s.oblig("variant", fmt.Sprintf("L%d", li.ordinal), fr.safetyTags(), cond,
				and(app("<=", "0", li.variant0), app("<", v, li.variant0)), pos, lc.Decreases.Src)
		} else if lc.NoVariant != "" {
			s.Assumed = appendUnique(s.Assumed, fmt.Sprintf("%s: termination of loop %d is assumed, not proved (%s)", fr.c.Func, li.ordinal, lc.NoVariant))
		} else {
			s.oblig("variant", fmt.Sprintf("L%d", li.ordinal), fr.safetyTags(), cond, "false", pos, "loop has no decreases clause")
		}
		for phi, v := range saved {
			fr.vals[phi] = v
		}
		return
	}
	in[to] = append(in[to], edge{from: from, st: st, cond: cond})
}

func firstPos(b *ssa.BasicBlock) token.Pos {
	for _, in := range b.Instrs {
		if p := in.Pos(); p != token.NoPos {
			return p
		}
	}
	return token.NoPos
}

func typeTagName(t types.Type) string {
	s := t.String()
	s = strings.ReplaceAll(s, "github.com/cloudspannerecosystem/memefish/", "")
	s = strings.ReplaceAll(s, "github.com/cloudspannerecosystem/memefish", "memefish")
	return s
}

// loopContract: the clauses of loop li: the `loop *` defaults plus the loop's own clauses
// (its own decreases clause replaces the default one).
func (fr *frame) loopContract(li *loopInfo) *LoopContract {
	own, def := fr.c.Loops[li.ordinal], fr.c.Loops[-1]
	switch {
	case own == nil && def == nil:
		return nil
	case own == nil:
		return def
	case def == nil:
		return own
	}
	m := &LoopContract{}
	m.Invariants = append(append([]*Clause{}, def.Invariants...), own.Invariants...)
	m.Steps = append(append([]*Clause{}, def.Steps...), own.Steps...)
	m.Decreases = own.Decreases
	if m.Decreases == nil {
		m.Decreases = def.Decreases
	}
	m.NoVariant = own.NoVariant
	return m
}

type havocRef struct{ leaf, addr string }

// writesNothing: a function of the module without a contract (it is inlined at its call sites) whose body
// stores only into objects it allocates itself and calls only builtins, functions with an empty write
// set, or functions of the same kind.
func (g *Gen) writesNothing(fn *ssa.Function, depth int) bool {
	if fn == nil || len(fn.Blocks) == 0 || depth > 3 {
		return false
	}
	for _, b := range fn.Blocks {
		for _, in := range b.Instrs {
			switch x := in.(type) {
			case *ssa.Store:
				root := addrRoot(x.Addr)
				if _, isAlloc := root.(*ssa.Alloc); !isAlloc {
					return false
				}
			case *ssa.MapUpdate, *ssa.Send, *ssa.Go, *ssa.Defer:
				return false
			case ssa.CallInstruction:
				cc := x.Common()
				if _, isB := cc.Value.(*ssa.Builtin); isB {
					continue
				}
				callee := cc.StaticCallee()
				if callee == nil {
					return false
				}
				if c2 := g.contractFor(callee); c2 != nil {
					if c2.Modifies != nil && len(c2.Modifies) == 0 {
						continue
					}
					return false
				}
				if !g.writesNothing(callee, depth+1) {
					return false
				}
			}
		}
	}
	return true
}
