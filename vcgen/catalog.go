package main

// E3: per-node-type obligations over ast/pos.go and ast/walk_internal.go.
//
//  C19/pos:  for every node struct T, the body of (*T).Pos / (*T).End in pos.go, evaluated symbolically
//            (helper calls by their contracts: nodePos, nodeEnd, posChoice, posAdd, nodeChoice, wrapNode,
//            nodeSliceIndex, nodeSliceLast, ifThenElse), equals the denotation of the `pos = ` / `end = `
//            expression in T's documentation, for all field valuations (z3).
//  C17/walk: the `case *T:` of walkInternal pushes exactly the exported node-typed fields of T (from
//            go/types), in reverse declaration order, node fields through wrapNode / slices through
//            wrapNodes, each with v.Field(<its own name>); every node struct has a case.
//
// The doc-expression parser and its denotational semantics are written here from the EBNF in the package
// comment of ast (not from tools/util/poslang).

import (
	"fmt"
	"go/ast"
	"go/token"
	"go/types"
	"os/exec"
	"path/filepath"
	"regexp"
	"sort"
	"strconv"
	"strings"

	"golang.org/x/tools/go/packages"
)

type catOblig struct {
	Name   string
	Tags   []string
	Query  string // SMT script body (declarations + assert of the negated goal), "" if decided structurally
	Failed string // structural failure message (no solver needed)
	Detail string
	Result string
	Model  string
	Pos    token.Position
}

// ---- symbolic values of the position language

type cval struct {
	kind string // "pos" "int" "bool" "node" "nodes"
	t    string // pos/int/bool term
	// node
	isNil, npos, nend string
	// nodes
	ln                       string
	fpos, fend, lpos, lend string
}

type catalog struct {
	g      *Gen
	pkg    *packages.Package
	decls  map[string]bool
	lines  []string
	fields map[string]cval // field name -> symbolic value (per struct, reset each time)
	st     *types.Struct
	recv   string
	fieldFn func(name string) (cval, bool) // when set: fields are read from a symbolic heap instead
}

func (c *catalog) decl(name, sort string) string {
	q := sym(name)
	if !c.decls[q] {
		c.decls[q] = true
		c.lines = append(c.lines, fmt.Sprintf("(declare-const %s %s)", q, sort))
	}
	return q
}

func isNodeType(g *Gen, t types.Type) bool {
	nodeIface := g.nodeInterface()
	if nodeIface == nil {
		return false
	}
	switch u := t.(type) {
	case *types.Pointer:
		if _, ok := u.Elem().Underlying().(*types.Struct); ok {
			return types.Implements(t, nodeIface)
		}
	case *types.Named:
		if it, ok := u.Underlying().(*types.Interface); ok {
			return types.Implements(t, nodeIface) || it == nodeIface
		}
	}
	return false
}

func (g *Gen) nodeInterface() *types.Interface {
	sp := g.spkgs["ast"]
	if sp == nil {
		return nil
	}
	obj := sp.Pkg.Scope().Lookup("Node")
	if obj == nil {
		return nil
	}
	it, _ := obj.Type().Underlying().(*types.Interface)
	return it
}

func (c *catalog) fieldVal(name string) (cval, bool) {
	if c.fieldFn != nil {
		return c.fieldFn(name)
	}
	if v, ok := c.fields[name]; ok {
		return v, true
	}
	for i := 0; i < c.st.NumFields(); i++ {
		f := c.st.Field(i)
		if f.Name() != name {
			continue
		}
		var v cval
		t := f.Type()
		pre := "F_" + name
		switch {
		case t.String() == modPath+"/token.Pos":
			v = cval{kind: "pos", t: c.decl(pre, "Int")}
		case isNodeType(c.g, t):
			v = cval{kind: "node", isNil: c.decl(pre+"!nil", "Bool"), npos: c.decl(pre+"!pos", "Int"), nend: c.decl(pre+"!end", "Int")}
		default:
			switch u := t.Underlying().(type) {
			case *types.Slice:
				if isNodeType(c.g, u.Elem()) {
					v = cval{kind: "nodes", ln: c.decl(pre+"!len", "Int"), fpos: c.decl(pre+"!first!pos", "Int"), fend: c.decl(pre+"!first!end", "Int"), lpos: c.decl(pre+"!last!pos", "Int"), lend: c.decl(pre+"!last!end", "Int")}
					c.lines = append(c.lines, fmt.Sprintf("(assert (>= %s 0))", v.ln))
					c.lines = append(c.lines, fmt.Sprintf("(assert (=> (= %s 1) (and (= %s %s) (= %s %s))))", v.ln, v.fpos, v.lpos, v.fend, v.lend))
				} else {
					return cval{}, false
				}
			case *types.Basic:
				switch {
				case u.Info()&types.IsBoolean != 0:
					v = cval{kind: "bool", t: c.decl(pre, "Bool")}
				case u.Info()&types.IsString != 0:
					v = cval{kind: "strlen", t: c.decl(pre+"!len", "Int")}
					c.lines = append(c.lines, fmt.Sprintf("(assert (>= %s 0))", v.t))
				default:
					return cval{}, false
				}
			default:
				return cval{}, false
			}
		}
		c.fields[name] = v
		return v, true
	}
	return cval{}, false
}

var nilNode = cval{kind: "node", isNil: "true", npos: "(- 1)", nend: "(- 1)"}

// ---- semantics of the helpers (the contracts of ast/pos_util.go and node_wrapper.go)

func nodePosOf(n cval) string  { return ite(n.isNil, "(- 1)", n.npos) }
func nodeEndOf(n cval) string  { return ite(n.isNil, "(- 1)", n.nend) }
func posAddOf(p, x string) string { return ite(app("<", p, "0"), "(- 1)", app("+", p, x)) }
func posChoiceOf(ps []string) string {
	r := "(- 1)"
	for i := len(ps) - 1; i >= 0; i-- {
		r = ite(app(">=", ps[i], "0"), ps[i], r)
	}
	return r
}
func nodeChoiceOf(ns []cval) cval {
	r := nilNode
	for i := len(ns) - 1; i >= 0; i-- {
		n := ns[i]
		r = cval{kind: "node", isNil: and(n.isNil, r.isNil), npos: ite(not(n.isNil), n.npos, r.npos), nend: ite(not(n.isNil), n.nend, r.nend)}
	}
	return r
}
func firstOf(s cval) cval {
	return cval{kind: "node", isNil: eq(s.ln, "0"), npos: s.fpos, nend: s.fend}
}
func lastOf(s cval) cval {
	return cval{kind: "node", isNil: eq(s.ln, "0"), npos: s.lpos, nend: s.lend}
}

// ---- evaluation of the Go expressions of pos.go

func (c *catalog) evalGo(e ast.Expr) (cval, error) {
	switch x := e.(type) {
	case *ast.ParenExpr:
		return c.evalGo(x.X)
	case *ast.BasicLit:
		if x.Kind == token.INT {
			return cval{kind: "int", t: x.Value}, nil
		}
	case *ast.SelectorExpr:
		if id, ok := x.X.(*ast.Ident); ok && id.Name == c.recv {
			if v, ok := c.fieldVal(x.Sel.Name); ok {
				return v, nil
			}
			return cval{}, fmt.Errorf("field %s has no position-language type", x.Sel.Name)
		}
	case *ast.CallExpr:
		fn := ""
		switch f := x.Fun.(type) {
		case *ast.Ident:
			fn = f.Name
		case *ast.IndexExpr:
			if id, ok := f.X.(*ast.Ident); ok {
				fn = id.Name
			}
		}
		var args []cval
		for _, a := range x.Args {
			v, err := c.evalGo(a)
			if err != nil {
				return cval{}, err
			}
			args = append(args, v)
		}
		need := func(n int, kinds ...string) error {
			if len(args) != n {
				return fmt.Errorf("%s: %d arguments", fn, len(args))
			}
			for i, k := range kinds {
				if k != "" && args[i].kind != k {
					return fmt.Errorf("%s: argument %d is a %s, want %s", fn, i, args[i].kind, k)
				}
			}
			return nil
		}
		switch fn {
		case "nodePos":
			if err := need(1, "node"); err != nil {
				return cval{}, err
			}
			return cval{kind: "pos", t: nodePosOf(args[0])}, nil
		case "nodeEnd":
			if err := need(1, "node"); err != nil {
				return cval{}, err
			}
			return cval{kind: "pos", t: nodeEndOf(args[0])}, nil
		case "posChoice":
			var ps []string
			for _, a := range args {
				if a.kind != "pos" {
					return cval{}, fmt.Errorf("posChoice of %s", a.kind)
				}
				ps = append(ps, a.t)
			}
			return cval{kind: "pos", t: posChoiceOf(ps)}, nil
		case "posAdd":
			if err := need(2, "pos", ""); err != nil {
				return cval{}, err
			}
			if args[1].kind != "int" && args[1].kind != "strlen" {
				return cval{}, fmt.Errorf("posAdd of %s", args[1].kind)
			}
			return cval{kind: "pos", t: posAddOf(args[0].t, args[1].t)}, nil
		case "nodeChoice":
			for _, a := range args {
				if a.kind != "node" {
					return cval{}, fmt.Errorf("nodeChoice of %s", a.kind)
				}
			}
			return nodeChoiceOf(args), nil
		case "wrapNode":
			if err := need(1, "node"); err != nil {
				return cval{}, err
			}
			return args[0], nil
		case "nodeSliceIndex":
			if err := need(2, "nodes", "int"); err != nil {
				return cval{}, err
			}
			if args[1].t != "0" {
				return cval{}, fmt.Errorf("nodeSliceIndex with index %s (only 0 is modelled)", args[1].t)
			}
			return firstOf(args[0]), nil
		case "nodeSliceLast":
			if err := need(1, "nodes"); err != nil {
				return cval{}, err
			}
			return lastOf(args[0]), nil
		case "ifThenElse":
			if err := need(3, "bool", "", ""); err != nil {
				return cval{}, err
			}
			return cval{kind: "int", t: ite(args[0].t, args[1].t, args[2].t)}, nil
		case "len":
			if err := need(1, "strlen"); err != nil {
				return cval{}, err
			}
			return cval{kind: "int", t: args[0].t}, nil
		}
		return cval{}, fmt.Errorf("call to %s is outside the position helper set", fn)
	}
	return cval{}, fmt.Errorf("unsupported expression %T", e)
}

// ---- the documented position language (EBNF in the package comment of ast)

type docParser struct {
	c    *catalog
	toks []string
	p    int
}

var reDocTok = regexp.MustCompile(`\|\||\?\?|[A-Za-z_][A-Za-z0-9_]*|[0-9]+|[()\[\]$.+?:]`)

func (c *catalog) evalDoc(src string) (string, error) {
	toks := reDocTok.FindAllString(src, -1)
	if strings.Join(toks, "") != strings.ReplaceAll(strings.ReplaceAll(src, " ", ""), "\t", "") {
		return "", fmt.Errorf("cannot tokenise %q", src)
	}
	d := &docParser{c: c, toks: toks}
	t, err := d.posChoice()
	if err != nil {
		return "", err
	}
	if d.p != len(d.toks) {
		return "", fmt.Errorf("trailing tokens in %q", src)
	}
	return t, nil
}

func (d *docParser) peek() string {
	if d.p < len(d.toks) {
		return d.toks[d.p]
	}
	return ""
}
func (d *docParser) eat(s string) bool {
	if d.peek() == s {
		d.p++
		return true
	}
	return false
}

// PosChoice -> PosExpr ("||" PosExpr)*        first valid position
func (d *docParser) posChoice() (string, error) {
	var ps []string
	for {
		p, err := d.posExpr()
		if err != nil {
			return "", err
		}
		ps = append(ps, p)
		if !d.eat("||") {
			break
		}
	}
	return posChoiceOf(ps), nil
}

// PosExpr -> PosAtom ("+" IntAtom)*           an invalid position stays invalid
func (d *docParser) posExpr() (string, error) {
	p, err := d.posAtom()
	if err != nil {
		return "", err
	}
	for d.eat("+") {
		x, err := d.intAtom()
		if err != nil {
			return "", err
		}
		p = posAddOf(p, x)
	}
	return p, nil
}

// PosAtom -> PosVar | NodeExpr "." ("pos" | "end")
func (d *docParser) posAtom() (string, error) {
	if d.peek() == "(" {
		n, err := d.nodeExpr()
		if err != nil {
			return "", err
		}
		return d.dotPosEnd(n)
	}
	name := d.peek()
	if name == "" {
		return "", fmt.Errorf("unexpected end")
	}
	d.p++
	v, ok := d.c.fieldVal(name)
	if !ok {
		return "", fmt.Errorf("unknown or unsupported field %s", name)
	}
	switch v.kind {
	case "pos":
		return v.t, nil
	case "node":
		return d.dotPosEnd(v)
	case "nodes":
		n, err := d.index(v)
		if err != nil {
			return "", err
		}
		return d.dotPosEnd(n)
	}
	return "", fmt.Errorf("field %s cannot start a position", name)
}

func (d *docParser) dotPosEnd(n cval) (string, error) {
	if !d.eat(".") {
		return "", fmt.Errorf("expected .pos or .end")
	}
	switch {
	case d.eat("pos"):
		return nodePosOf(n), nil
	case d.eat("end"):
		return nodeEndOf(n), nil
	}
	return "", fmt.Errorf("expected pos or end")
}

// NodeExpr -> NodeAtom | "(" NodeAtom ("??" NodeAtom)* ")"      first non-nil node
func (d *docParser) nodeExpr() (cval, error) {
	if !d.eat("(") {
		return d.nodeAtom()
	}
	var ns []cval
	for {
		n, err := d.nodeAtom()
		if err != nil {
			return cval{}, err
		}
		ns = append(ns, n)
		if !d.eat("??") {
			break
		}
	}
	if !d.eat(")") {
		return cval{}, fmt.Errorf("expected )")
	}
	return nodeChoiceOf(ns), nil
}

// NodeAtom -> NodeVar | NodeSliceVar "[" (IntAtom | "$") "]"
func (d *docParser) nodeAtom() (cval, error) {
	name := d.peek()
	d.p++
	v, ok := d.c.fieldVal(name)
	if !ok {
		return cval{}, fmt.Errorf("unknown field %s", name)
	}
	switch v.kind {
	case "node":
		return v, nil
	case "nodes":
		return d.index(v)
	}
	return cval{}, fmt.Errorf("field %s is not a node", name)
}

func (d *docParser) index(v cval) (cval, error) {
	if !d.eat("[") {
		return cval{}, fmt.Errorf("expected [")
	}
	var r cval
	switch {
	case d.eat("$"):
		r = lastOf(v)
	case d.eat("0"):
		r = firstOf(v)
	default:
		return cval{}, fmt.Errorf("only [0] and [$] are modelled")
	}
	if !d.eat("]") {
		return cval{}, fmt.Errorf("expected ]")
	}
	return r, nil
}

// IntAtom -> IntVal | "len" "(" StringVar ")" | "(" BoolVar "?" IntAtom ":" IntAtom ")"
func (d *docParser) intAtom() (string, error) {
	t := d.peek()
	switch {
	case t == "len":
		d.p++
		if !d.eat("(") {
			return "", fmt.Errorf("expected (")
		}
		v, ok := d.c.fieldVal(d.peek())
		d.p++
		if !ok || v.kind != "strlen" {
			return "", fmt.Errorf("len of a non-string")
		}
		if !d.eat(")") {
			return "", fmt.Errorf("expected )")
		}
		return v.t, nil
	case t == "(":
		d.p++
		v, ok := d.c.fieldVal(d.peek())
		d.p++
		if !ok || v.kind != "bool" {
			return "", fmt.Errorf("condition is not a bool field")
		}
		if !d.eat("?") {
			return "", fmt.Errorf("expected ?")
		}
		a, err := d.intAtom()
		if err != nil {
			return "", err
		}
		if !d.eat(":") {
			return "", fmt.Errorf("expected :")
		}
		b, err := d.intAtom()
		if err != nil {
			return "", err
		}
		if !d.eat(")") {
			return "", fmt.Errorf("expected )")
		}
		return ite(v.t, a, b), nil
	default:
		if _, err := strconv.Atoi(t); err == nil {
			d.p++
			return t, nil
		}
	}
	return "", fmt.Errorf("expected an integer atom, got %q", t)
}

// ---- driving

type structInfo struct {
	name     string
	st       *types.Struct
	named    *types.Named
	docPos   string
	docEnd   string
	declPos  token.Position
	hasDoc   bool
}

func (g *Gen) astPackage() *packages.Package {
	for _, p := range g.pkgs {
		if p.Name == "ast" {
			return p
		}
	}
	return nil
}

func (g *Gen) nodeStructs() []*structInfo {
	pkg := g.astPackage()
	nodeIface := g.nodeInterface()
	var out []*structInfo
	rePos := regexp.MustCompile(`^\s*pos\s*=\s*(.*?)\s*$`)
	reEnd := regexp.MustCompile(`^\s*end\s*=\s*(.*?)\s*$`)
	for _, f := range pkg.Syntax {
		for _, d := range f.Decls {
			gd, ok := d.(*ast.GenDecl)
			if !ok || gd.Tok != token.TYPE {
				continue
			}
			for _, sp := range gd.Specs {
				ts := sp.(*ast.TypeSpec)
				obj := pkg.Types.Scope().Lookup(ts.Name.Name)
				if obj == nil {
					continue
				}
				named, ok := obj.Type().(*types.Named)
				if !ok {
					continue
				}
				st, ok := named.Underlying().(*types.Struct)
				if !ok || !types.Implements(types.NewPointer(named), nodeIface) {
					continue
				}
				si := &structInfo{name: ts.Name.Name, st: st, named: named, declPos: g.prog.Fset.Position(ts.Pos())}
				// the pos/end expressions are comment lines at the head of the struct body
				stt, _ := ts.Type.(*ast.StructType)
				for _, cg := range f.Comments {
					if stt == nil || cg.Pos() < stt.Fields.Opening || cg.End() > stt.Fields.Closing {
						continue
					}
					for _, line := range strings.Split(cg.Text(), "\n") {
						if m := rePos.FindStringSubmatch(line); m != nil && si.docPos == "" {
							si.docPos = m[1]
							si.hasDoc = true
						}
						if m := reEnd.FindStringSubmatch(line); m != nil && si.docEnd == "" {
							si.docEnd = m[1]
						}
					}
				}
				out = append(out, si)
			}
		}
	}
	sort.Slice(out, func(i, j int) bool { return out[i].name < out[j].name })
	return out
}

// posObligations: C19 equivalence of pos.go with the documentation.
func (g *Gen) posObligations() []*catOblig {
	pkg := g.astPackage()
	var obs []*catOblig
	// method bodies
	type mkey struct{ typ, meth string }
	bodies := map[mkey]*ast.FuncDecl{}
	for _, f := range pkg.Syntax {
		if filepath.Base(g.prog.Fset.Position(f.Pos()).Filename) != "pos.go" {
			continue
		}
		for _, d := range f.Decls {
			fd, ok := d.(*ast.FuncDecl)
			if !ok || fd.Recv == nil || (fd.Name.Name != "Pos" && fd.Name.Name != "End") {
				continue
			}
			if se, ok := fd.Recv.List[0].Type.(*ast.StarExpr); ok {
				if id, ok := se.X.(*ast.Ident); ok {
					bodies[mkey{id.Name, fd.Name.Name}] = fd
				}
			}
		}
	}
	seen := map[mkey]bool{}
	for _, si := range g.nodeStructs() {
		for _, meth := range []string{"Pos", "End"} {
			ob := &catOblig{Name: fmt.Sprintf("ast.(*%s).%s/equiv", si.name, meth), Tags: []string{"C19", "C05", "C06"}, Pos: si.declPos}
			obs = append(obs, ob)
			doc := si.docPos
			if meth == "End" {
				doc = si.docEnd
			}
			ob.Detail = strings.ToLower(meth) + " = " + doc
			fd := bodies[mkey{si.name, meth}]
			seen[mkey{si.name, meth}] = true
			if doc == "" {
				ob.Failed = "node struct has no documented " + strings.ToLower(meth) + " expression"
				continue
			}
			if fd == nil {
				ob.Failed = "no " + meth + "() method in ast/pos.go"
				continue
			}
			ob.Pos = g.prog.Fset.Position(fd.Pos())
			if len(fd.Body.List) != 1 {
				ob.Failed = "method body is not a single return statement"
				continue
			}
			ret, ok := fd.Body.List[0].(*ast.ReturnStmt)
			if !ok || len(ret.Results) != 1 {
				ob.Failed = "method body is not a single return statement"
				continue
			}
			c := &catalog{g: g, pkg: pkg, decls: map[string]bool{}, fields: map[string]cval{}, st: si.st, recv: fd.Recv.List[0].Names[0].Name}
			gv, err := c.evalGo(ret.Results[0])
			if err != nil {
				ob.Failed = "pos.go: " + err.Error()
				continue
			}
			if gv.kind != "pos" {
				ob.Failed = "pos.go: method returns a " + gv.kind
				continue
			}
			dv, err := c.evalDoc(doc)
			if err != nil {
				ob.Failed = "documentation: " + err.Error()
				continue
			}
			// equal as positions: the same valid position, or both invalid (negative)
			ob.Query = strings.Join(c.lines, "\n") + "\n(assert (not (or (= " + gv.t + " " + dv + ") (and (< " + gv.t + " 0) (< " + dv + " 0)))))\n"
		}
	}
	// Pos/End methods in pos.go without a node struct
	for k, fd := range bodies {
		if !seen[k] {
			obs = append(obs, &catOblig{Name: fmt.Sprintf("ast.(*%s).%s/equiv", k.typ, k.meth), Tags: []string{"C19"}, Failed: "method in pos.go has no documented node struct", Pos: g.prog.Fset.Position(fd.Pos())})
		}
	}
	sort.Slice(obs, func(i, j int) bool { return obs[i].Name < obs[j].Name })
	return obs
}

// walkObligations: C17/C19 per-type cases of walkInternal.
func (g *Gen) walkObligations() []*catOblig {
	pkg := g.astPackage()
	var obs []*catOblig
	cases := map[string]*ast.CaseClause{}
	var walkFn *ast.FuncDecl
	for _, f := range pkg.Syntax {
		for _, d := range f.Decls {
			if fd, ok := d.(*ast.FuncDecl); ok && fd.Name.Name == "walkInternal" && fd.Recv == nil {
				walkFn = fd
			}
		}
	}
	structural := func(name, msg string, pos token.Position) {
		obs = append(obs, &catOblig{Name: name, Tags: []string{"C17", "C19", "C04"}, Failed: msg, Pos: pos})
	}
	if walkFn == nil {
		structural("ast.walkInternal/shape", "walkInternal not found", token.Position{})
		return obs
	}
	var sw *ast.TypeSwitchStmt
	for _, s := range walkFn.Body.List {
		if x, ok := s.(*ast.TypeSwitchStmt); ok {
			sw = x
		}
	}
	if sw == nil || len(walkFn.Body.List) != 2 {
		structural("ast.walkInternal/shape", "walkInternal is not `switch n := node.(type) {...}; return stack`", g.prog.Fset.Position(walkFn.Pos()))
		return obs
	}
	if ret, ok := walkFn.Body.List[1].(*ast.ReturnStmt); !ok || len(ret.Results) != 1 || fmt.Sprint(ret.Results[0]) != "stack" {
		structural("ast.walkInternal/shape", "walkInternal does not end with `return stack`", g.prog.Fset.Position(walkFn.Pos()))
	}
	swVar := ""
	if as, ok := sw.Assign.(*ast.AssignStmt); ok {
		swVar = as.Lhs[0].(*ast.Ident).Name
	}
	for _, cc := range sw.Body.List {
		cl := cc.(*ast.CaseClause)
		if cl.List == nil {
			structural("ast.walkInternal/default", "walkInternal has a default case", g.prog.Fset.Position(cl.Pos()))
			continue
		}
		for _, t := range cl.List {
			if se, ok := t.(*ast.StarExpr); ok {
				if id, ok := se.X.(*ast.Ident); ok {
					if len(cl.List) > 1 {
						structural("ast.walkInternal/case#"+id.Name, "case lists several types", g.prog.Fset.Position(cl.Pos()))
					}
					cases[id.Name] = cl
				}
			}
		}
	}
	for _, si := range g.nodeStructs() {
		ob := &catOblig{Name: "ast.walkInternal/case#" + si.name, Tags: []string{"C17", "C19", "C04"}, Pos: si.declPos}
		obs = append(obs, ob)
		cl := cases[si.name]
		if cl == nil {
			ob.Failed = "no case for *" + si.name + " (its children would be skipped silently)"
			continue
		}
		ob.Pos = g.prog.Fset.Position(cl.Pos())
		// expected pushes: exported node-typed fields, reversed
		var want []string
		for i := si.st.NumFields() - 1; i >= 0; i-- {
			f := si.st.Field(i)
			if !f.Exported() {
				continue
			}
			switch {
			case isNodeType(g, f.Type()):
				want = append(want, fmt.Sprintf("(item (wrapNode F_%s) (Field %q))", f.Name(), f.Name()))
			default:
				if sl, ok := f.Type().Underlying().(*types.Slice); ok && isNodeType(g, sl.Elem()) {
					want = append(want, fmt.Sprintf("(items (wrapNodes F_%s) (Field %q))", f.Name(), f.Name()))
				}
			}
		}
		var got []string
		bad := ""
		for _, s := range cl.Body {
			as, ok := s.(*ast.AssignStmt)
			if !ok || len(as.Lhs) != 1 || fmt.Sprint(as.Lhs[0]) != "stack" || as.Tok != token.ASSIGN {
				bad = "statement is not `stack = append(stack, ...)`"
				break
			}
			call, ok := as.Rhs[0].(*ast.CallExpr)
			if !ok || fmt.Sprint(call.Fun) != "append" || len(call.Args) != 2 || fmt.Sprint(call.Args[0]) != "stack" {
				bad = "statement is not `stack = append(stack, ...)`"
				break
			}
			item, err := g.walkItem(call.Args[1], swVar)
			if err != nil {
				bad = err.Error()
				break
			}
			got = append(got, item)
		}
		ob.Detail = fmt.Sprintf("pushes %d items; node-typed fields (reversed): %d", len(got), len(want))
		if bad != "" {
			ob.Failed = bad
			continue
		}
		// decided as equality of uninterpreted terms (push-sequences)
		mk := func(items []string) string {
			t := "s0"
			for _, it := range items {
				t = "(push " + t + " " + it + ")"
			}
			return t
		}
		if mk(got) != mk(want) {
			ob.Failed = fmt.Sprintf("pushes %v, expected %v", got, want)
		} else {
			ob.Result = "unsat"
		}
	}
	// cases for types that are not node structs
	known := map[string]bool{}
	for _, si := range g.nodeStructs() {
		known[si.name] = true
	}
	for name, cl := range cases {
		if !known[name] {
			structural("ast.walkInternal/case#"+name, "case for a type that is not a node struct", g.prog.Fset.Position(cl.Pos()))
		}
	}
	sort.Slice(obs, func(i, j int) bool { return obs[i].Name < obs[j].Name })
	return obs
}

func (g *Gen) walkItem(e ast.Expr, swVar string) (string, error) {
	ue, ok := e.(*ast.UnaryExpr)
	if !ok || ue.Op != token.AND {
		return "", fmt.Errorf("pushed value is not &stackItem{...}")
	}
	cl, ok := ue.X.(*ast.CompositeLit)
	if !ok || fmt.Sprint(cl.Type) != "stackItem" || len(cl.Elts) != 2 {
		return "", fmt.Errorf("pushed value is not &stackItem{node|nodes: ..., visitor: ...}")
	}
	var kind, field, vis string
	for _, el := range cl.Elts {
		kv, ok := el.(*ast.KeyValueExpr)
		if !ok {
			return "", fmt.Errorf("stackItem literal without keys")
		}
		key := fmt.Sprint(kv.Key)
		call, ok := kv.Value.(*ast.CallExpr)
		if !ok || len(call.Args) != 1 {
			return "", fmt.Errorf("stackItem.%s is not a call", key)
		}
		switch key {
		case "node", "nodes":
			wantFn := map[string]string{"node": "wrapNode", "nodes": "wrapNodes"}[key]
			if fmt.Sprint(call.Fun) != wantFn {
				return "", fmt.Errorf("stackItem.%s is not %s(...)", key, wantFn)
			}
			sel, ok := call.Args[0].(*ast.SelectorExpr)
			if !ok || fmt.Sprint(sel.X) != swVar {
				return "", fmt.Errorf("stackItem.%s does not wrap a field of the node", key)
			}
			kind, field = key, sel.Sel.Name
		case "visitor":
			sel, ok := call.Fun.(*ast.SelectorExpr)
			if !ok || fmt.Sprint(sel.X) != "v" || sel.Sel.Name != "Field" {
				return "", fmt.Errorf("visitor is not v.Field(...)")
			}
			lit, ok := call.Args[0].(*ast.BasicLit)
			if !ok || lit.Kind != token.STRING {
				return "", fmt.Errorf("v.Field argument is not a string literal")
			}
			vis, _ = strconv.Unquote(lit.Value)
		default:
			return "", fmt.Errorf("unexpected key %s", key)
		}
	}
	if kind == "node" {
		return fmt.Sprintf("(item (wrapNode F_%s) (Field %q))", field, vis), nil
	}
	return fmt.Sprintf("(items (wrapNodes F_%s) (Field %q))", field, vis), nil
}

// dischargeCatalog decides the SMT obligations with one incremental z3 process.
func dischargeCatalog(obs []*catOblig) {
	var b strings.Builder
	var order []*catOblig
	for _, ob := range obs {
		if ob.Failed != "" {
			ob.Result = "sat"
			continue
		}
		if ob.Query == "" {
			continue
		}
		fmt.Fprintf(&b, "(push 1)\n%s(echo \"@@ %d\")\n(check-sat)\n(pop 1)\n", ob.Query, len(order))
		order = append(order, ob)
	}
	if len(order) == 0 {
		return
	}
	cmd := exec.Command("z3", "-in", "-smt2", "-T:120")
	cmd.Stdin = strings.NewReader(b.String())
	out, _ := cmd.CombinedOutput()
	cur := -1
	for _, line := range strings.Split(string(out), "\n") {
		line = strings.Trim(strings.TrimSpace(line), "\"")
		if strings.HasPrefix(line, "@@ ") {
			fmt.Sscanf(line[3:], "%d", &cur)
			continue
		}
		if cur >= 0 && cur < len(order) && order[cur].Result == "" && (line == "sat" || line == "unsat" || line == "unknown") {
			order[cur].Result = line
		}
		if strings.HasPrefix(line, "(error") {
			for _, ob := range order {
				ob.Result = "error"
				ob.Model = line
			}
			return
		}
	}
	for _, ob := range order {
		if ob.Result == "" {
			ob.Result = "unknown"
		}
		if ob.Result == "sat" {
			// ask for the model of this one
			c := exec.Command("z3", "-in", "-smt2", "-T:20")
			c.Stdin = strings.NewReader(ob.Query + "(check-sat)\n(get-model)\n")
			o, _ := c.CombinedOutput()
			ob.Model = string(o)
		}
	}
}
