package main

import (
	"encoding/json"
	"fmt"
	"os"
	"path/filepath"
	"sort"

	"golang.org/x/tools/go/ssa"
)

// Local-name signatures: contracts name locals of the functions they speak about (loop invariants).
// A pure renaming of such a local must not take the function out of reach, so for every function under
// contract the file /verif/localsigs.json records, for each named local, the "shape" of the values it
// denotes: kind of defining instruction, type, and ordinal among the named values of the same kind and
// type in source order. When a contract mentions a name the function no longer has, and exactly one
// current name has the same shape, that name is meant. The file is generated on the unchanged tree
// (`vcgen sigs`) and only read by the checks.

type sigMap map[string]map[string][]string // function -> local name -> sorted signatures

func localSigs(fn *ssa.Function) map[string][]string {
	out := map[string][]string{}
	count := map[string]int{}
	seen := map[string]bool{}
	for _, b := range fn.Blocks {
		for _, in := range b.Instrs {
			dr, ok := in.(*ssa.DebugRef)
			if !ok || dr.Object() == nil {
				continue
			}
			name := dr.Object().Name()
			kind := fmt.Sprintf("%T", dr.X)
			if dr.IsAddr {
				kind = "cell"
			}
			switch dr.X.(type) {
			case *ssa.Parameter, *ssa.Const, *ssa.FreeVar:
				continue // parameters keep their names in the contract; constants carry no identity
			}
			base := kind + "|" + dr.X.Type().String()
			key := fmt.Sprintf("%p", dr.X)
			if seen[name+key] {
				continue
			}
			seen[name+key] = true
			// ordinal among named values of this shape: the same SSA value referenced under the same
			// name twice counts once
			idKey := base + "#" + key
			if _, had := count[idKey]; !had {
				count[idKey] = count[base]
				count[base]++
			}
			out[name] = append(out[name], fmt.Sprintf("%s|%d", base, count[idKey]))
		}
	}
	for n := range out {
		sort.Strings(out[n])
	}
	return out
}

func cmdSigs() int {
	g, err := Load(repoDir())
	if err != nil {
		fmt.Fprintln(os.Stderr, "load:", err)
		return 2
	}
	all := sigMap{}
	for _, name := range sortedKeys(g.cs.Funcs) {
		fn := g.funcs[name]
		if fn == nil || len(fn.Blocks) == 0 {
			continue
		}
		s := localSigs(fn)
		if s == nil {
			s = map[string][]string{}
		}
		all[name] = s // every function that exists on the unchanged tree is listed, also without locals
	}
	b, _ := json.MarshalIndent(all, "", " ")
	if err := os.WriteFile(filepath.Join(verifDir(), "localsigs.json"), append(b, '\n'), 0o644); err != nil {
		fmt.Fprintln(os.Stderr, err)
		return 2
	}
	fmt.Printf("%d functions\n", len(all))
	return 0
}

var savedSigs sigMap

func loadSigs() {
	b, err := os.ReadFile(filepath.Join(verifDir(), "localsigs.json"))
	if err != nil {
		return
	}
	json.Unmarshal(b, &savedSigs)
}

// renamedLocal: the current name of the local that the contract calls `name`, when the function no
// longer has that name and exactly one current local has the recorded shape.
func (fx *fnExec) renamedLocal(fn *ssa.Function, name string) (string, bool) {
	if savedSigs == nil {
		return "", false
	}
	want := savedSigs[fx.g.funcName(fn)][name]
	if len(want) == 0 {
		return "", false
	}
	cur := localSigs(fn)
	if _, still := cur[name]; still {
		return "", false
	}
	found := ""
	for n, sigs := range cur {
		if len(sigs) != len(want) {
			continue
		}
		same := true
		for i := range sigs {
			if sigs[i] != want[i] {
				same = false
			}
		}
		if same {
			if found != "" {
				return "", false
			}
			found = n
		}
	}
	if found == "" {
		return "", false
	}
	if _, clash := savedSigs[fx.g.funcName(fn)][found]; clash {
		return "", false // the candidate is a name the contract author already knew: not a renaming
	}
	return found, true
}

// knownFunction: the function existed (under this name) when localsigs.json was generated.
func knownFunction(name string) bool {
	if savedSigs == nil {
		return true // no record: treat everything as known (no inline fallback)
	}
	_, ok := savedSigs[name]
	return ok
}
