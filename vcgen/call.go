package main

import (
	"fmt"
	"go/token"
	"go/types"
	"strings"

	"golang.org/x/tools/go/ssa"
)

func (fr *frame) call(x ssa.CallInstruction, st *State) {
	fx := fr.fx
	cc := x.Common()
	var res Val
	switch callee := cc.Value.(type) {
	case *ssa.Builtin:
		res = fr.builtin(x, callee, st)
	default:
		if cc.IsInvoke() {
			res = fr.invoke(x, st)
			break
		}
		if fn := cc.StaticCallee(); fn != nil {
			var args []Val
			for _, a := range cc.Args {
				args = append(args, fr.val(a))
			}
			if mc, ok := cc.Value.(*ssa.MakeClosure); ok {
				// immediate call of a closure literal: inline
				_ = mc
				panic(unsupported("immediately invoked closure"))
			}
			res = fr.callStatic(x, fn, args, st)
			break
		}
		// call of a function value
		if fv, ok := fr.val(cc.Value).(FuncV); ok && fv.Fn != nil {
			var args []Val
			args = append(args, fv.Bind...)
			for _, a := range cc.Args {
				args = append(args, fr.val(a))
			}
			if len(fv.Bind) > 0 && fv.Fn.Synthetic != "" && strings.Contains(fv.Fn.Synthetic, "bound method") {
				// bound method wrapper: receiver is the single free variable
				m := fx.g.prog.FuncValue(fv.Fn.Object().(*types.Func))
				if m != nil {
					res = fr.callStatic(x, m, args, st)
					break
				}
			}
			panic(unsupported("call of closure value " + fv.Fn.String()))
		}
		res = fr.callFuncParam(x, st)
	}
	if v, ok := x.(ssa.Value); ok {
		fr.vals[v] = res
	}
	_ = fx
}

// callFuncParam: a call through a function-typed parameter that carries an abstract contract:
// `fparam <name> <schema>` in the enclosing function's contract. The schema's clauses speak about the
// receiver `p`, which is the enclosing function's own parameter p.
func (fr *frame) callFuncParam(x ssa.CallInstruction, st *State) Val {
	fx := fr.fx
	cc := x.Common()
	par, ok := cc.Value.(*ssa.Parameter)
	if !ok || fx.c == nil || fx.c.FParams[par.Name()] == "" {
		panic(unsupported("dynamic call " + x.String()))
	}
	sc := fx.g.schemaByName(fx.c.FParams[par.Name()])
	if sc == nil {
		panic(contractErr("unknown schema " + fx.c.FParams[par.Name()]))
	}
	pv, ok := fx.penv["p"]
	if !ok {
		panic(unsupported("fparam call in a function without parameter p"))
	}
	sig := par.Type().Underlying().(*types.Signature)
	vars := map[string]TV{"p": pv}
	return fr.applyContractEnv(x, sc.C, "fparam "+par.Name(), sig, vars, nil, nil, st)
}

func (fr *frame) builtin(x ssa.CallInstruction, b *ssa.Builtin, st *State) Val {
	fx := fr.fx
	s := fx.s
	cc := x.Common()
	switch b.Name() {
	case "len":
		switch v := fr.val(cc.Args[0]).(type) {
		case StrV:
			return Sc{v.Len, SInt}
		case SliceV:
			return Sc{v.Len, SInt}
		case ArrV:
			return Sc{num(cc.Args[0].Type().Underlying().(*types.Array).Len()), SInt}
		}
	case "append":
		a := fr.val(cc.Args[0]).(SliceV)
		var t SliceV
		switch tv := fr.val(cc.Args[1]).(type) {
		case SliceV:
			t = tv
		case StrV: // append([]byte, string...)
			t = SliceV{Elem: a.Elem, Len: tv.Len, Off: "0", Nil: "false", Elems: []string{fx.shiftArr(tv.Arr, tv.Off, tv.Len, SInt)}}
		default:
			panic(unsupported("append operand"))
		}
		var n int
		if _, err := fmt.Sscanf(t.Len, "%d", &n); err == nil && !strings.HasPrefix(t.Len, "(") && n <= 16 {
			elems := append([]string{}, a.Elems...)
			for k := 0; k < n; k++ {
				for i := range elems {
					elems[i] = store(elems[i], add(add(a.Off, a.Len), num(int64(k))), sel(t.Elems[i], add(t.Off, num(int64(k)))))
				}
			}
			for i := range elems {
				elems[i] = s.define("app", arrOf(fx.g.leaves(a.Elem)[i].S), elems[i])
			}
			nl := "false"
			if n == 0 {
				nl = a.Nil
			}
			return SliceV{Elem: a.Elem, Len: s.define("len", SInt, add(a.Len, num(int64(n)))), Off: a.Off, Nil: nl, Elems: elems}
		}
		// symbolic number of appended elements: fresh arrays, prefix preserved, first few appended elements known
		elems := make([]string, len(a.Elems))
		for i := range elems {
			r := s.fresh("app", arrOf(fx.g.leaves(a.Elem)[i].S))
			elems[i] = r
			k := sym(fmt.Sprintf("k!%d", len(s.Items)))
			s.assert(fmt.Sprintf("(forall ((%s Int)) (! (=> (and (<= 0 %s) (< %s %s)) (= (select %s %s) (select %s %s))) :pattern ((select %s %s))))",
				k, k, k, a.Len, r, k, a.Elems[i], k, r, k))
			s.usesQuant = true
			for j := 0; j < 4; j++ {
				js := num(int64(j))
				s.assert(implies(app("<", js, t.Len), eq(sel(r, add(add(a.Off, a.Len), js)), sel(t.Elems[i], add(t.Off, js)))))
			}
			// the appended part, stated over the absolute index of the result
			ka := sym(fmt.Sprintf("k!p%d", len(s.Items)))
			s.assert(fmt.Sprintf("(forall ((%s Int)) (! (=> (and (<= %s %s) (< %s (+ %s %s))) (= (select %s %s) (select %s (- %s %s)))) :pattern ((select %s %s))))",
				ka, a.Len, ka, ka, a.Len, t.Len, r, ka, t.Elems[i], ka, a.Len, r, ka))
		}
		return SliceV{Elem: a.Elem, Len: s.define("len", SInt, add(a.Len, t.Len)), Off: a.Off, Nil: and(a.Nil, eq(t.Len, "0")), Elems: elems}
	case "min", "max":
		if len(cc.Args) != 2 {
			panic(unsupported("min/max with more than two operands"))
		}
		x0, x1 := fr.val(cc.Args[0]).(Sc).T, fr.val(cc.Args[1]).(Sc).T
		op := "<="
		if b.Name() == "max" {
			op = ">="
		}
		return Sc{s.define(b.Name(), SInt, ite(app(op, x0, x1), x0, x1)), SInt}
	case "recover":
		if fr.recoverV != nil {
			fr.recovered = true
			return *fr.recoverV
		}
		return IfV{"0", "0"}
	}
	panic(unsupported("builtin " + b.Name()))
}

func (fr *frame) invoke(x ssa.CallInstruction, st *State) Val {
	fx := fr.fx
	cc := x.Common()
	ic := fx.g.invokeContract(cc)
	if ic == nil {
		panic(unsupported("interface call without contract: " + cc.String()))
	}
	var args []Val
	args = append(args, fr.val(cc.Value))
	for _, a := range cc.Args {
		args = append(args, fr.val(a))
	}
	return fr.applyContract(x, nil, cc.Method, ic, args, st)
}

func (fr *frame) callStatic(x ssa.CallInstruction, callee *ssa.Function, args []Val, st *State) Val {
	fx := fr.fx
	c2 := fx.g.contractFor(callee)
	if c2 == nil {
		if v, ok := fr.inlineStatic(x, callee, args, st); ok {
			return v
		}
		panic(unsupported("call to function without contract: " + fx.g.funcName(callee)))
	}
	if len(c2.FParams) > 0 {
		names, _ := paramNames(callee)
		var recvAddr string
		for i, n := range names {
			if n == "p" {
				if pv, ok := args[i].(PtrV); ok {
					recvAddr = pv.Addr
				}
			}
		}
		for i, n := range names {
			schema, ok := c2.FParams[n]
			if !ok {
				continue
			}
			fv, isF := args[i].(FuncV)
			if !isF || fv.Fn == nil || len(fv.Bind) != 1 || !strings.Contains(fv.Fn.Synthetic, "bound method") {
				panic(unsupported("function argument of " + c2.Func + " is not a method value"))
			}
			rp, isP := fv.Bind[0].(PtrV)
			if !isP || rp.Addr != recvAddr {
				panic(unsupported("method value passed to " + c2.Func + " is not bound to the same parser"))
			}
			m := fx.g.prog.FuncValue(fv.Fn.Object().(*types.Func))
			mc := fx.g.contractFor(m)
			if !fx.g.satisfiesSchema(mc, schema) {
				panic(unsupported(fmt.Sprintf("method %s passed to %s does not carry schema %s", fx.g.funcName(m), c2.Func, schema)))
			}
			fx.g.noteUse(fx.c, mc)
			if fr.fparamStrong == nil {
				fr.fparamStrong = map[string]string{}
			}
			if mc.Weak {
				fr.fparamStrong[n] = "false"
			} else {
				fr.fparamStrong[n] = "true"
			}
		}
	}
	return fr.applyContract(x, callee, nil, c2, args, st)
}

// inlineStatic: a call to a function of the module that has no contract of its own (a small helper) is
// executed in place, like a closure: its body is part of the caller's proof. Only loop-free,
// defer-free, non-recursive bodies; anything else stays "call to function without contract".
func (fr *frame) inlineStatic(x ssa.CallInstruction, callee *ssa.Function, args []Val, st *State) (res Val, ok bool) {
	fx := fr.fx
	if callee.Pkg == nil || len(callee.Blocks) == 0 || fx.depth >= 3 || callee == fr.fn || callee == fx.fn {
		return nil, false
	}
	inModule := false
	for _, sp := range fx.g.spkgs {
		if sp == callee.Pkg {
			inModule = true
		}
	}
	if !inModule || callee.Signature.Recv() != nil && callee.Signature.Variadic() {
		return nil, false
	}
	for _, b := range callee.Blocks {
		for _, in := range b.Instrs {
			switch in.(type) {
			case *ssa.Defer, *ssa.Go, *ssa.Range, *ssa.Next, *ssa.Select:
				return nil, false
			}
		}
	}
	sub := fx.g.newFrame(fx, callee, nil)
	if len(sub.loops) > 0 || len(callee.Params) != len(args) {
		return nil, false
	}
	for k, p := range callee.Params {
		sub.vals[p] = args[k]
	}
	fx.depth++
	exits := sub.run(st.clone())
	fx.depth--
	var edges []edge
	var rets []*Exit
	for _, e := range exits {
		switch e.Kind {
		case "return":
			edges = append(edges, edge{st: e.St, cond: e.St.reach})
			rets = append(rets, e)
		case "panic":
			fr.exits = append(fr.exits, e)
		}
	}
	if len(edges) == 0 {
		fx.s.assert(not(st.reach))
		var outs []Val
		for i := 0; i < callee.Signature.Results().Len(); i++ {
			outs = append(outs, fr.freshVal("inl", callee.Signature.Results().At(i).Type()))
		}
		if len(outs) == 1 {
			return outs[0], true
		}
		return TupleV{V: outs}, true
	}
	m := sub.mergeStates(callee.Blocks[0], edges)
	*st = *m
	// the result: one fresh value per result, equal to the returned value on each return path
	rt := callee.Signature.Results()
	var outs []Val
	for i := 0; i < rt.Len(); i++ {
		var v Val
		if len(rets) == 1 {
			v = rets[0].Results[i]
		} else {
			v = fr.freshVal("inl", rt.At(i).Type())
			nl := fx.g.toLeaves(v)
			for _, e := range rets {
				ol := fx.g.toLeaves(e.Results[i])
				if len(ol) != len(nl) {
					return nil, false
				}
				for k := range nl {
					fx.s.assert(implies(e.St.reach, eq(nl[k], ol[k])))
				}
			}
		}
		outs = append(outs, v)
	}
	switch len(outs) {
	case 0:
		return TupleV{}, true
	case 1:
		return outs[0], true
	}
	return TupleV{V: outs}, true
}

func (fr *frame) applyContract(x ssa.CallInstruction, callee *ssa.Function, method *types.Func, c2 *Contract, args []Val, st *State) Val {
	return fr.applyContractEnv(x, c2, c2.Func, nil, nil, callee, args, st, method)
}

func (fr *frame) applyContractEnv(x ssa.CallInstruction, c2 *Contract, name string, sig0 *types.Signature, vars map[string]TV, callee *ssa.Function, args []Val, st *State, methods ...*types.Func) Val {
	fx := fr.fx
	s := fx.s
	g := fx.g
	pos := fx.posOf(x.Pos())
	var method *types.Func
	if len(methods) > 0 {
		method = methods[0]
	}
	g.noteUse(fx.c, c2)
	pre := st.clone()
	var env *Env
	var sig *types.Signature
	if vars != nil {
		sig = sig0
		env = &Env{fx: fx, vars: vars, cur: pre, old: pre, pkg: fx.fn.Pkg.Pkg, params: map[string]bool{}}
		for k := range vars {
			env.params[k] = true
		}
		for _, l := range c2.Lets {
			env.vars[l.Name] = fx.eval(l.E, env)
		}
	} else if callee != nil {
		env = fx.calleeEnv(callee, c2, args, pre, pre)
		sig = callee.Signature
	} else {
		sig = method.Type().(*types.Signature)
		env = &Env{fx: fx, vars: map[string]TV{}, cur: pre, old: pre, pkg: method.Pkg()}
		env.vars["recv"] = TV{args[0], x.Common().Value.Type()}
		for i := 0; i < sig.Params().Len(); i++ {
			n := sig.Params().At(i).Name()
			if n == "" {
				n = fmt.Sprintf("arg%d", i)
			}
			env.vars[n] = TV{args[i+1], sig.Params().At(i).Type()}
		}
	}
	env.strong = map[string]string{"self": "true"}
	if c2.Weak {
		env.strong["self"] = "false"
	}
	if strings.HasPrefix(name, "fparam ") {
		env.strong["self"] = s.decl("strong!"+strings.TrimPrefix(name, "fparam "), SBool)
	}
	for n, t := range fr.fparamStrong {
		env.strong[n] = t
	}
	fr.fparamStrong = nil
	s.comment("call " + name)
	for k, r := range c2.Requires {
		label := r.Label
		if label == "" {
			label = fmt.Sprintf("%s.%d", shortName(name), k)
		} else {
			label = shortName(name) + "." + label
		}
		tags := c2.tagsFor(r)
		if len(r.Tags) == 0 {
			tags = fr.safetyTags()
		}
		s.oblig("pre@call", label, tags, st.reach, fx.evalBool(r.E, env), pos, r.Src)
	}
	// exceptional exit
	pcond := "false"
	switch c2.PanicKind {
	case "always":
		pcond = "true"
	case "when":
		pcond = fx.evalBool(c2.PanicWhen.E, env)
	}
	// frame: havoc modifies
	var locs []modLoc
	for _, m := range c2.Modifies {
		switch {
		case vars != nil:
			locs = append(locs, fx.modLocsEnv(env, m, pre)...)
		case callee != nil:
			locs = append(locs, fx.modLocs(callee, c2, m, args, pre)...)
		default:
			panic(unsupported("modifies on interface contract"))
		}
	}
	// the caller's own frame: callee's modifies must be within the caller's modifies
	for _, l := range locs {
		fr.checkFrameLoc(st, l, pos, name)
	}
	for _, l := range locs {
		arr := fx.heapLeaf(st, l.leaf, l.sort)
		if l.addr == "" {
			nh := s.fresh("Hc!"+l.leaf, arrOf(l.sort))
			st.heap[l.leaf] = nh
			if l.except != "" {
				fx.frameAxiom(nh, arr, l.except, pre.now, l.leaf)
			}
		} else {
			c := s.fresh("hv!"+l.leaf, l.sort)
			st.heap[l.leaf] = s.define("H!"+l.leaf, arrOf(l.sort), store(arr, l.addr, c))
		}
	}
	// a callee that receives a slice of a local array may write the array through it
	for _, a := range x.Common().Args {
		if org, ok := fr.sliceOrigin[a]; ok {
			at := org.Elem.Underlying().(*types.Array)
			for _, l := range fx.g.leaves(at.Elem()) {
				leaf := org.HT + org.Path + ".elem" + l.Path
				arr := fx.heapLeaf(st, leaf, arrOf(l.S))
				fx.g.leafSorts[leaf] = arrOf(l.S)
				st.heap[leaf] = s.define("H!"+leaf, arrOf(arrOf(l.S)), store(arr, org.Addr, s.fresh("written", arrOf(l.S))))
			}
		}
	}
	if pcond != "false" {
		pst := st.clone() // heap after havoc: the callee may have got anywhere
		pst.reach = s.define("panicpath", SBool, and(st.reach, pcond))
		fr.exits = append(fr.exits, &Exit{Kind: "panic", St: pst, Why: "call to " + name + " may panic", Pos: x.Pos(), PanicV: fr.errorPanicValue(pst)})
	}
	if buildsNodes(c2) && !(c2.Modifies != nil && len(c2.Modifies) == 0) {
		var touched []string
		for _, l := range locs {
			if strings.HasPrefix(l.leaf, "ast.") && l.addr != "" {
				touched = append(touched, l.addr)
			}
		}
		fx.havocGhost(st, pre.now, touched)
	}
	if !c2.AllocsNone {
		n := s.fresh("now", SInt)
		s.assert(app(">=", n, st.now))
		st.now = n
	}
	// results
	var res Val
	rt := sig.Results()
	switch rt.Len() {
	case 0:
		res = TupleV{}
	case 1:
		res = fr.freshVal("ret!"+shortName(name), rt.At(0).Type())
		fr.assumeTypeFacts(st, res, rt.At(0).Type())
	default:
		res = fr.freshVal("ret!"+shortName(name), rt)
		fr.assumeTypeFacts(st, res, rt)
	}
	fx.noteObj(res)
	if rt.Len() == 1 {
		fx.noteNodeRefs(res, rt.At(0).Type())
	} else if rt.Len() > 1 {
		fx.noteNodeRefs(res, rt)
	}
	env2 := *env
	env2.cur = st
	env2.old = pre
	env2.vars = map[string]TV{}
	for k, v := range env.vars {
		env2.vars[k] = v
	}
	bindResults(&env2, rt, res)
	for _, e := range c2.Ensures {
		// clauses that mention locals of the callee are checked in the callee but cannot be stated to callers
		if t, ok := fx.tryEvalBool(e.E, &env2); ok {
			s.assert(implies(st.reach, t))
		}
	}
	if c2.PanicKind == "always" {
		s.assert(not(st.reach))
	}
	return res
}

func bindResults(env *Env, rt *types.Tuple, res Val) {
	switch rt.Len() {
	case 0:
	case 1:
		env.vars["result"] = TV{res, rt.At(0).Type()}
		if n := rt.At(0).Name(); n != "" && n != "_" {
			env.vars[n] = TV{res, rt.At(0).Type()}
		}
	default:
		tv := res.(TupleV)
		env.vars["result"] = TV{res, rt}
		for i := 0; i < rt.Len(); i++ {
			env.vars[fmt.Sprintf("result%d", i)] = TV{tv.V[i], rt.At(i).Type()}
			if n := rt.At(i).Name(); n != "" && n != "_" {
				env.vars[n] = TV{tv.V[i], rt.At(i).Type()}
			}
		}
	}
}

func shortName(n string) string {
	if i := strings.LastIndex(n, "."); i >= 0 {
		return n[i+1:]
	}
	return n
}

// errorPanicValue: the value carried by a contract-declared panic: an interface holding a non-nil *Error
// allocated before now.
func (fr *frame) errorPanicValue(st *State) Val {
	fx := fr.fx
	tag, ok := fx.g.tagByName("*memefish.Error")
	if !ok {
		return IfV{fx.s.fresh("panictag", SInt), fx.s.fresh("panicref", SInt)}
	}
	ref := fx.s.fresh("panicerr", SInt)
	fx.s.assert(and(app(">", ref, "1"), app("<", app("birth", ref), add1(st.now))))
	return IfV{num(int64(tag)), ref}
}

// checkFrameLoc: a callee's write set must be inside the caller's modifies clause.
func (fr *frame) checkFrameLoc(st *State, l modLoc, pos token.Position, callee string) {
	fx := fr.fx
	c := fx.c
	if c == nil {
		return
	}
	var al []string
	if l.addr != "" {
		al = append(al, app(">=", app("birth", l.addr), fx.pre.now))
	}
	if l.addr == "" && l.except != "" {
		// the callee writes its current object or objects it allocates: fine when that object was
		// itself allocated during this call
		al = append(al, app(">=", app("birth", l.except), fx.pre.now))
	}
	for _, m := range c.Modifies {
		for _, ml := range fx.modLocs(fx.fn, c, m, nil, fx.pre) {
			if ml.leaf != l.leaf {
				continue
			}
			switch {
			case ml.addr == "" && ml.except == "":
				al = append(al, "true")
			case ml.addr == "" && l.addr == "" && l.except != "":
				// both "current or fresh": the callee's current object must be ours or fresh
				al = append(al, or(eq(ml.except, l.except), app(">=", app("birth", l.except), fx.pre.now)))
			case ml.addr == "" && l.addr != "":
				al = append(al, eq(ml.except, l.addr))
			case ml.addr != "" && l.addr != "":
				al = append(al, eq(ml.addr, l.addr))
			}
		}
	}
	goal := or(al...)
	if goal == "true" {
		return
	}
	fx.s.oblig("frame", "", []string{"C18", "frame"}, st.reach, goal, pos, "callee "+callee+" may write "+l.leaf+" outside modifies")
}

// runDefers executes the deferred closures (LIFO) from state st. panicV non-nil = exceptional mode.
// It updates st in place to the state after the defers; returns whether the panic was recovered.
func (fr *frame) runDefers(st *State, panicV *IfV) bool {
	recovered := false
	for i := len(fr.defers) - 1; i >= 0; i-- {
		d := fr.defers[i]
		fv := fr.vals[d.Call.Value].(FuncV)
		sub := fr.fx.g.newFrame(fr.fx, fv.Fn, nil)
		for k, b := range fv.Fn.FreeVars {
			sub.vals[b] = fv.Bind[k]
		}
		for k, p := range fv.Fn.Params {
			sub.vals[p] = fr.val(d.Call.Args[k])
		}
		if panicV != nil && !recovered {
			sub.recoverV = panicV
		}
		fr.fx.depth++
		exits := sub.run(st.clone())
		fr.fx.depth--
		if sub.recovered {
			recovered = true
		}
		var edges []edge
		for _, e := range exits {
			switch e.Kind {
			case "return":
				edges = append(edges, edge{st: e.St, cond: e.St.reach})
			case "panic":
				fr.exits = append(fr.exits, e)
			}
		}
		if len(edges) == 0 {
			fr.fx.s.assert(not(st.reach))
			return recovered
		}
		m := sub.mergeStates(fv.Fn.Blocks[0], edges)
		*st = *m
	}
	return recovered
}

func (fx *fnExec) tryEvalBool(e *Expr, env *Env) (t string, ok bool) {
	defer func() {
		if r := recover(); r != nil {
			if ce, isCE := r.(contractErr); isCE && strings.HasPrefix(string(ce), "unknown identifier") {
				t, ok = "", false
				return
			}
			panic(r)
		}
	}()
	return fx.evalBool(e, env), true
}

// frameAxiom: objects other than `except` that existed before `now` keep their value of the leaf.
// Instead of a quantified axiom, the frame is instantiated for every object of the leaf's heap type that
// the function holds a direct reference to (parameters, call results, local allocations): those are
// the only such objects it can read without going through the modified object itself.
func (fx *fnExec) frameAxiom(newArr, oldArr, except, now string, leaf string) {
	ht := leaf
	// the heap type is the leaf name up to the first field separator after the package-qualified type
	for _, cand := range sortedKeys(fx.objs) {
		if strings.HasPrefix(leaf, cand+".") && len(cand) < len(ht) {
			ht = cand
		}
	}
	if ht == leaf {
		return
	}
	for _, x := range fx.objs[ht] {
		if x == except {
			continue
		}
		fx.s.assert(implies(and(not(eq(x, except)), app("<", app("birth", x), now)), eq(sel(newArr, x), sel(oldArr, x))))
	}
}

// noteObj records a direct reference held by the function under verification.
func (fx *fnExec) noteObj(v Val) {
	switch x := v.(type) {
	case PtrV:
		if x.Path != "" || x.Addr == "0" || strings.HasPrefix(x.HT, "global:") {
			return
		}
		if fx.objs == nil {
			fx.objs = map[string][]string{}
		}
		for _, o := range fx.objs[x.HT] {
			if o == x.Addr {
				return
			}
		}
		fx.objs[x.HT] = append(fx.objs[x.HT], x.Addr)
	case TupleV:
		for _, e := range x.V {
			fx.noteObj(e)
		}
	}
}
