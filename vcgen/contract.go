package main

// Contract files: comment-only Go files in /repo behind `//go:build verif`.
// Every line of the form `//@ ...` or `// @ ...` is a contract line.
//
//   spec NAME(a, b, c) = EXPR                    pure macro (expanded at use)
//   func NAME                                    start of the contract of a function; NAME is
//                                                the go/ssa name relative to the module:
//                                                  char.IsDigit  memefish.(*Lexer).skipN  token.(*File).init
//     props C03 C13                              default property tags for the clauses below
//     requires[TAGS] [LABEL:] EXPR
//     ensures[TAGS] [LABEL:] EXPR
//     modifies PATH, PATH                         frame (l.pos, l.Token.*, l.File.lines, nothing)
//     panics never | always | when EXPR           exceptional behaviour (default: never)
//     loop K invariant[TAGS] [LABEL:] EXPR
//     loop K decreases EXPR
//     loop K modifies NAMES                       (optional: restrict havoc; otherwise computed)
//     trusted                                     body is not verified (external or outside subset)
//     let NAME = EXPR                             abbreviation usable in later clauses of this function (evaluated in pre-state)

import (
	"bufio"
	"fmt"
	"os"
	"regexp"
	"sort"
	"strings"
)

type Clause struct {
	Kind  string // requires ensures invariant decreases
	Label string
	Tags  []string
	E     *Expr
	Src   string
	File  string
	Line  int
}

type LoopContract struct {
	NoVariant  string // non-empty: no decreases clause; the reason termination is assumed
	Invariants []*Clause
	Steps      []*Clause // two-state clauses checked on every back edge; prev(e) is e at the loop head
	Decreases  *Clause
}

type Contract struct {
	Func       string
	Props      []string
	Requires   []*Clause
	Ensures    []*Clause
	Modifies   []*Expr // nil = not stated (treated as nothing)
	ModAll     bool
	PanicKind  string // never | always | when
	PanicWhen  *Clause
	PanicTags  []string
	Loops      map[int]*LoopContract
	Trusted    bool
	Lets       []LetDef
	File       string
	Line       int
	FromSchema string // name of the schema this contract was instantiated from / inherits
	Inherit    string // explicit contract: clauses of this schema are prepended
	FParams    map[string]string // function-typed parameter -> schema its argument must satisfy
	Weak       bool              // strong(self) is false for this function
	SchemaOnly bool              // instantiated from a schema by its name only (no explicit contract block)
	Replay     *Expr // string-valued expression (pre-state): the input buffer for counterexample replay
	Ghosts     []string
	BuildsNodes bool
	merged     bool
	panicSet   bool
	NoSafety   bool
	AllocsNone bool
}

type LetDef struct {
	Name string
	E    *Expr
}

type SpecDef struct {
	Name   string
	Params []string
	Body   *Expr
	Opaque bool // evaluated as an uninterpreted predicate over its arguments; reveal(NAME(args)) unfolds it
}

type Schema struct {
	Name    string
	Pattern *regexp.Regexp
	Exclude *regexp.Regexp
	C       *Contract
}

type ContractSet struct {
	Unproved map[string]map[string]string // function -> clause label -> reason: clause is assumed by callers but not yet proved for this function
	GhostDefs map[string]map[string]*Expr // ghost name -> heap type name -> defining expression over self
	TypeInvs map[string]*Expr // heap type name -> invariant over `self` replacing the inferred required fields
	Funcs   map[string]*Contract
	Schemas []*Schema
	Specs   map[string]*SpecDef
	Files []string
	Lines int
}

var reLine = regexp.MustCompile(`^\s*//\s?@\s?(.*)$`)
var reHead = regexp.MustCompile(`^(requires|ensures|invariant|step)(\[[A-Za-z0-9, ]*\])?\s+(?:([A-Za-z_][A-Za-z0-9_#\-]*):\s+)?(.*)$`)

func splitTags(s string) []string {
	s = strings.Trim(s, "[]")
	var out []string
	for _, t := range strings.FieldsFunc(s, func(r rune) bool { return r == ',' || r == ' ' }) {
		out = append(out, t)
	}
	return out
}

func LoadContracts(files []string) (*ContractSet, error) {
	cs := &ContractSet{Funcs: map[string]*Contract{}, Specs: map[string]*SpecDef{}}
	sort.Strings(files)
	for _, fn := range files {
		f, err := os.Open(fn)
		if err != nil {
			return nil, err
		}
		cs.Files = append(cs.Files, fn)
		sc := bufio.NewScanner(f)
		sc.Buffer(make([]byte, 1<<20), 1<<20)
		var cur *Contract
		ln := 0
		// join continuation lines: a contract line ending with `\` continues
		var pending string
		var pendingLine int
		for sc.Scan() {
			ln++
			m := reLine.FindStringSubmatch(sc.Text())
			if m == nil {
				continue
			}
			text := strings.TrimSpace(m[1])
			if text == "" || strings.HasPrefix(text, "#") {
				continue
			}
			if pending != "" {
				text = pending + " " + text
			} else {
				pendingLine = ln
			}
			if strings.HasSuffix(text, "\\") {
				pending = strings.TrimSuffix(text, "\\")
				continue
			}
			pending = ""
			cs.Lines++
			if err := cs.line(&cur, text, fn, pendingLine); err != nil {
				f.Close()
				return nil, fmt.Errorf("%s:%d: %v", fn, pendingLine, err)
			}
		}
		f.Close()
	}
	return cs, nil
}

func (cs *ContractSet) line(cur **Contract, text, file string, ln int) error {
	word := text
	rest := ""
	if i := strings.IndexAny(text, " \t"); i >= 0 {
		word, rest = text[:i], strings.TrimSpace(text[i+1:])
	}
	mk := func(kind, body string) (*Clause, error) {
		sep := " "
		if strings.HasPrefix(body, "[") {
			sep = ""
		}
		m := reHead.FindStringSubmatch(kind + sep + body)
		if m == nil {
			return nil, fmt.Errorf("malformed clause %q", text)
		}
		e, err := ParseExpr(m[4])
		if err != nil {
			// the label regexp may have eaten an identifier followed by ':' belonging to forall
			e2, err2 := ParseExpr(strings.TrimSpace(body[len(m[2]):]))
			if err2 != nil {
				return nil, err
			}
			return &Clause{Kind: kind, Tags: splitTags(m[2]), E: e2, Src: body, File: file, Line: ln}, nil
		}
		return &Clause{Kind: kind, Label: m[3], Tags: splitTags(m[2]), E: e, Src: m[4], File: file, Line: ln}, nil
	}
	switch {
	case word == "spec" || word == "opaque":
		m := regexp.MustCompile(`^([A-Za-z_][A-Za-z0-9_]*)\(([^)]*)\)\s*=\s*(.*)$`).FindStringSubmatch(rest)
		if m == nil {
			return fmt.Errorf("malformed spec %q", rest)
		}
		e, err := ParseExpr(m[3])
		if err != nil {
			return err
		}
		var ps []string
		for _, p := range strings.Split(m[2], ",") {
			p = strings.TrimSpace(p)
			if p != "" {
				ps = append(ps, strings.Fields(p)[0])
			}
		}
		if _, dup := cs.Specs[m[1]]; dup {
			return fmt.Errorf("duplicate spec %s", m[1])
		}
		cs.Specs[m[1]] = &SpecDef{Name: m[1], Params: ps, Body: e, Opaque: word == "opaque"}
		return nil
	case word == "unproved":
		// unproved LABEL[,LABEL] FUNC -- reason
		parts := strings.SplitN(rest, "--", 2)
		f := strings.Fields(parts[0])
		if len(f) != 2 {
			return fmt.Errorf("malformed unproved line")
		}
		reason := ""
		if len(parts) == 2 {
			reason = strings.TrimSpace(parts[1])
		}
		if cs.Unproved == nil {
			cs.Unproved = map[string]map[string]string{}
		}
		if cs.Unproved[f[1]] == nil {
			cs.Unproved[f[1]] = map[string]string{}
		}
		for _, l := range strings.Split(f[0], ",") {
			cs.Unproved[f[1]][l] = reason
		}
		return nil
	case word == "ghostdef":
		// ghostdef NAME ast.T EXPR   (EXPR over self)
		f := strings.SplitN(rest, " ", 3)
		if len(f) != 3 {
			return fmt.Errorf("malformed ghostdef")
		}
		e, err := ParseExpr(f[2])
		if err != nil {
			return err
		}
		if cs.GhostDefs == nil {
			cs.GhostDefs = map[string]map[string]*Expr{}
		}
		if cs.GhostDefs[f[0]] == nil {
			cs.GhostDefs[f[0]] = map[string]*Expr{}
		}
		cs.GhostDefs[f[0]][f[1]] = e
		return nil
	case word == "typeinv":
		// typeinv ast.T EXPR   (EXPR over self)
		f := strings.SplitN(rest, " ", 2)
		if len(f) != 2 {
			return fmt.Errorf("malformed typeinv")
		}
		e, err := ParseExpr(f[1])
		if err != nil {
			return err
		}
		if cs.TypeInvs == nil {
			cs.TypeInvs = map[string]*Expr{}
		}
		cs.TypeInvs[f[0]] = e
		return nil
	case word == "schema":
		// schema NAME REGEXP [except REGEXP]
		f := strings.Fields(rest)
		if len(f) != 2 && !(len(f) == 4 && f[2] == "except") {
			return fmt.Errorf("malformed schema line")
		}
		re, err := regexp.Compile("^(?:" + f[1] + ")$")
		if err != nil {
			return err
		}
		sc := &Schema{Name: f[0], Pattern: re, C: &Contract{Func: "schema " + f[0], PanicKind: "never", Loops: map[int]*LoopContract{}, File: file, Line: ln, FromSchema: f[0]}}
		if len(f) == 4 {
			ex, err := regexp.Compile("^(?:" + f[3] + ")$")
			if err != nil {
				return err
			}
			sc.Exclude = ex
		}
		cs.Schemas = append(cs.Schemas, sc)
		*cur = sc.C
		return nil
	case word == "func":
		if _, dup := cs.Funcs[rest]; dup {
			return fmt.Errorf("duplicate contract for %s", rest)
		}
		c := &Contract{Func: rest, PanicKind: "never", Loops: map[int]*LoopContract{}, File: file, Line: ln}
		cs.Funcs[rest] = c
		*cur = c
		return nil
	}
	c := *cur
	if c == nil {
		return fmt.Errorf("clause outside func: %q", text)
	}
	wordBase := word
	if i := strings.Index(word, "["); i >= 0 {
		wordBase = word[:i]
	}
	switch wordBase {
	case "props":
		c.Props = strings.Fields(rest)
	case "trusted":
		c.Trusted = true
	case "buildsnodes":
		c.BuildsNodes = true
	case "weak":
		// the function does not promise the clauses guarded by strong(self)
		c.Weak = true
	case "inherit":
		c.Inherit = rest
	case "fparam":
		f := strings.Fields(rest)
		if len(f) != 2 {
			return fmt.Errorf("malformed fparam line")
		}
		if c.FParams == nil {
			c.FParams = map[string]string{}
		}
		c.FParams[f[0]] = f[1]
	case "replay":
		e, err := ParseExpr(rest)
		if err != nil {
			return err
		}
		c.Replay = e
	case "nosafety":
		c.NoSafety = true
	case "requires", "ensures":
		cl, err := mk(wordBase, text[len(wordBase):])
		if err != nil {
			return err
		}
		if wordBase == "requires" {
			c.Requires = append(c.Requires, cl)
		} else {
			c.Ensures = append(c.Ensures, cl)
		}
	case "let":
		m := regexp.MustCompile(`^([A-Za-z_][A-Za-z0-9_]*)\s*=\s*(.*)$`).FindStringSubmatch(rest)
		if m == nil {
			return fmt.Errorf("malformed let")
		}
		e, err := ParseExpr(m[2])
		if err != nil {
			return err
		}
		c.Lets = append(c.Lets, LetDef{m[1], e})
	case "modifies":
		if rest == "nothing" {
			c.Modifies = []*Expr{}
			return nil
		}
		if c.Modifies == nil {
			c.Modifies = []*Expr{}
		}
		for _, part := range splitTop(rest) {
			part = strings.TrimSpace(part)
			star := false
			if strings.HasSuffix(part, ".*") {
				star = true
				part = strings.TrimSuffix(part, ".*")
			}
			e, err := ParseExpr(part)
			if err != nil {
				return err
			}
			if star {
				e = &Expr{Op: "sel", Name: "*", Args: []*Expr{e}}
			}
			c.Modifies = append(c.Modifies, e)
		}
	case "panics":
		tags := []string{}
		if i := strings.Index(word, "["); i >= 0 {
			tags = splitTags(word[i:])
		}
		c.PanicTags = tags
		c.panicSet = true
		switch {
		case rest == "never" || rest == "always":
			c.PanicKind = rest
		case strings.HasPrefix(rest, "when "):
			e, err := ParseExpr(strings.TrimPrefix(rest, "when "))
			if err != nil {
				return err
			}
			c.PanicKind = "when"
			c.PanicWhen = &Clause{Kind: "panics", E: e, Src: rest, File: file, Line: ln}
		default:
			return fmt.Errorf("malformed panics clause %q", rest)
		}
	case "loop":
		f := strings.SplitN(rest, " ", 2)
		if len(f) < 2 {
			return fmt.Errorf("malformed loop clause")
		}
		var k int
		if f[0] == "*" {
			k = -1
		} else if _, err := fmt.Sscanf(f[0], "%d", &k); err != nil {
			return fmt.Errorf("malformed loop ordinal %q", f[0])
		}
		lc := c.Loops[k]
		if lc == nil {
			lc = &LoopContract{}
			c.Loops[k] = lc
		}
		body := strings.TrimSpace(f[1])
		switch {
		case strings.HasPrefix(body, "invariant"):
			cl, err := mk("invariant", body[len("invariant"):])
			if err != nil {
				return err
			}
			lc.Invariants = append(lc.Invariants, cl)
		case strings.HasPrefix(body, "step"):
			cl, err := mk("step", body[len("step"):])
			if err != nil {
				return err
			}
			lc.Steps = append(lc.Steps, cl)
		case strings.HasPrefix(body, "decreases "):
			e, err := ParseExpr(strings.TrimPrefix(body, "decreases "))
			if err != nil {
				return err
			}
			lc.Decreases = &Clause{Kind: "decreases", E: e, Src: body, File: file, Line: ln}
		case strings.HasPrefix(body, "terminates assumed"):
			// no variant: termination of this loop rests on an assumption stated after "--" (recorded in the evidence)
			lc.NoVariant = strings.TrimSpace(strings.TrimPrefix(strings.TrimPrefix(body, "terminates assumed"), " --"))
			if lc.NoVariant == "" {
				lc.NoVariant = "termination assumed"
			}
		default:
			return fmt.Errorf("malformed loop clause %q", body)
		}
	default:
		return fmt.Errorf("unknown clause %q", word)
	}
	return nil
}

// splitTop splits at commas that are not inside parentheses or brackets.
func splitTop(s string) []string {
	var out []string
	depth := 0
	last := 0
	for i, c := range s {
		switch c {
		case '(', '[':
			depth++
		case ')', ']':
			depth--
		case ',':
			if depth == 0 {
				out = append(out, s[last:i])
				last = i + 1
			}
		}
	}
	out = append(out, s[last:])
	return out
}

func (c *Contract) tagsFor(cl *Clause) []string {
	if cl != nil && len(cl.Tags) > 0 {
		return cl.Tags
	}
	return c.Props
}

func dropOverridden(schema, explicit []*Clause) []*Clause {
	over := map[string]bool{}
	for _, cl := range explicit {
		if cl.Label != "" {
			over[cl.Label] = true
		}
	}
	var out []*Clause
	for _, cl := range schema {
		if cl.Label != "" && over[cl.Label] {
			continue
		}
		out = append(out, cl)
	}
	return out
}

// forFunc returns the contract of a function: an explicit one (with the clauses of the schema it
// inherits prepended), or the instantiation of the first schema whose pattern matches the name.
func (cs *ContractSet) forFunc(name string) *Contract {
	if c, ok := cs.Funcs[name]; ok {
		if c.Inherit != "" && !c.merged {
			for _, sc := range cs.Schemas {
				if sc.Name == c.Inherit {
					// an explicit labelled clause replaces the schema clause with the same label
					c.Requires = append(dropOverridden(sc.C.Requires, c.Requires), c.Requires...)
					c.Ensures = append(dropOverridden(sc.C.Ensures, c.Ensures), c.Ensures...)
					if c.Modifies == nil {
						c.Modifies = sc.C.Modifies
					}
					if len(c.Props) == 0 {
						c.Props = sc.C.Props
					}
					if !c.panicSet {
						c.PanicKind, c.PanicWhen = sc.C.PanicKind, sc.C.PanicWhen
					}
					c.Lets = append(append([]LetDef{}, sc.C.Lets...), c.Lets...)
					c.FromSchema = sc.Name
					for k, v := range sc.C.Loops {
						if _, has := c.Loops[k]; !has {
							c.Loops[k] = v
						}
					}
					if c.FParams == nil {
						c.FParams = sc.C.FParams
					}
				}
			}
			c.merged = true
		}
		return c
	}
	for _, sc := range cs.Schemas {
		if sc.Pattern.MatchString(name) && (sc.Exclude == nil || !sc.Exclude.MatchString(name)) {
			c := *sc.C
			c.Func = name
			c.SchemaOnly = true
			c.Loops = map[int]*LoopContract{}
			for k, v := range sc.C.Loops {
				c.Loops[k] = v
			}
			cs.Funcs[name] = &c
			return &c
		}
	}
	return nil
}
