package main

import "strings"

// triggers returns candidate E-matching patterns for a quantifier over variable v with the given
// body: the minimal applications of `select` or of an uninterpreted function that mention v.
func triggers(body, v string) []string {
	var out []string
	bad := false // some occurrence of v is only reachable through arithmetic: leave the quantifier to the solver
	seen := map[string]bool{}
	var walk func(s string) bool // returns whether s mentions v
	walk = func(s string) bool {
		s = strings.TrimSpace(s)
		if !strings.HasPrefix(s, "(") {
			return s == v
		}
		parts := splitSexp(s[1 : len(s)-1])
		if len(parts) == 0 {
			return false
		}
		head := parts[0]
		if head == "forall" || head == "exists" || head == "!" || head == "let" {
			// nested binder: look inside the body only
			any := false
			for _, p := range parts[1:] {
				if walk(p) {
					any = true
				}
			}
			_ = any
			return false // do not build patterns across binders
		}
		mention := false
		childCand := false
		before := len(out)
		for _, p := range parts[1:] {
			if walk(p) {
				mention = true
			}
		}
		if len(out) > before {
			childCand = true
		}
		if !mention {
			return false
		}
		isApp := head == "select" || strings.HasPrefix(head, "uf_") || strings.HasPrefix(head, "spec!") || strings.HasPrefix(head, "|uf_") || head == "birth"
		if isApp && !childCand {
			// E-matching does not see through arithmetic: only accept applications in which the bound
			// variable occurs as a direct argument
			direct := false
			for _, p := range parts[1:] {
				if strings.TrimSpace(p) == v {
					direct = true
				}
			}
			if !direct {
				bad = true
				return true
			}
		}
		if isApp && !childCand && !seen[s] {
			seen[s] = true
			out = append(out, s)
		}
		return true
	}
	walk(body)
	if bad {
		return nil
	}
	return out
}

func splitSexp(s string) []string {
	var out []string
	depth := 0
	start := -1
	inBar := false
	for i := 0; i < len(s); i++ {
		c := s[i]
		if inBar {
			if c == '|' {
				inBar = false
			}
			continue
		}
		switch c {
		case '|':
			inBar = true
			if start < 0 {
				start = i
			}
		case '(':
			if depth == 0 && start < 0 {
				start = i
			}
			depth++
		case ')':
			depth--
			if depth == 0 {
				out = append(out, s[start:i+1])
				start = -1
			}
		case ' ', '\t', '\n':
			if depth == 0 && start >= 0 {
				out = append(out, s[start:i])
				start = -1
			}
		default:
			if start < 0 {
				start = i
			}
		}
	}
	if start >= 0 {
		out = append(out, s[start:])
	}
	return out
}

// absolutise: E-matching cannot see through `(+ X v)`. When every occurrence of the bound variable v
// in body is inside one and the same sum `(+ X v)` (string indexing with a fixed offset X) or is bare,
// the quantifier is restated over the absolute index a = X + v: `(+ X v)` becomes `a` and any other
// occurrence of v becomes `(- a X)`. Returns the new body, or ok=false if the shape does not apply.
func absolutise(body, v, a string) (string, bool) {
	offsets := map[string]bool{}
	var scan func(s string)
	scan = func(s string) {
		s = strings.TrimSpace(s)
		if !strings.HasPrefix(s, "(") {
			return
		}
		parts := splitSexp(s[1 : len(s)-1])
		if len(parts) == 3 && parts[0] == "+" && parts[2] == v && !mentions(parts[1], v) {
			offsets[parts[1]] = true
			return
		}
		for _, p := range parts[1:] {
			scan(p)
		}
	}
	scan(body)
	if len(offsets) != 1 {
		return "", false
	}
	var x string
	for k := range offsets {
		x = k
	}
	var rw func(s string) string
	rw = func(s string) string {
		s = strings.TrimSpace(s)
		if !strings.HasPrefix(s, "(") {
			if s == v {
				return "(- " + a + " " + x + ")"
			}
			return s
		}
		parts := splitSexp(s[1 : len(s)-1])
		if len(parts) == 3 && parts[0] == "+" && parts[2] == v && parts[1] == x {
			return a
		}
		out := make([]string, len(parts))
		out[0] = parts[0]
		for i, p := range parts[1:] {
			out[i+1] = rw(p)
		}
		return "(" + strings.Join(out, " ") + ")"
	}
	return rw(body), true
}

func mentions(s, v string) bool {
	for _, t := range strings.FieldsFunc(s, func(r rune) bool { return r == '(' || r == ')' || r == ' ' }) {
		if t == v {
			return true
		}
	}
	return false
}
