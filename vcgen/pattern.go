package main

import "strings"

// triggers returns candidate E-matching patterns for a quantifier over variable v with the given
// body: the minimal applications of `select` or of an uninterpreted function that mention v.
func triggers(body, v string) []string {
	var out []string
	seen := map[string]bool{}
	var walk func(s string) bool // returns whether s mentions v
	walk = func(s string) bool {
		s = strings.TrimSpace(s)
		if !strings.HasPrefix(s, "(") {
			return s == v
		}
		parts := splitSexp(s[1 : len(s)-1])
		if len(parts) == 0 {
			return false
		}
		head := parts[0]
		if head == "forall" || head == "exists" || head == "!" || head == "let" {
			// nested binder: look inside the body only
			any := false
			for _, p := range parts[1:] {
				if walk(p) {
					any = true
				}
			}
			_ = any
			return false // do not build patterns across binders
		}
		mention := false
		childCand := false
		before := len(out)
		for _, p := range parts[1:] {
			if walk(p) {
				mention = true
			}
		}
		if len(out) > before {
			childCand = true
		}
		if !mention {
			return false
		}
		isApp := head == "select" || strings.HasPrefix(head, "uf_") || strings.HasPrefix(head, "spec!") || strings.HasPrefix(head, "|uf_") || head == "birth"
		if isApp && !childCand && !seen[s] {
			seen[s] = true
			out = append(out, s)
		}
		return true
	}
	walk(body)
	return out
}

func splitSexp(s string) []string {
	var out []string
	depth := 0
	start := -1
	inBar := false
	for i := 0; i < len(s); i++ {
		c := s[i]
		if inBar {
			if c == '|' {
				inBar = false
			}
			continue
		}
		switch c {
		case '|':
			inBar = true
			if start < 0 {
				start = i
			}
		case '(':
			if depth == 0 && start < 0 {
				start = i
			}
			depth++
		case ')':
			depth--
			if depth == 0 {
				out = append(out, s[start:i+1])
				start = -1
			}
		case ' ', '\t', '\n':
			if depth == 0 && start >= 0 {
				out = append(out, s[start:i])
				start = -1
			}
		default:
			if start < 0 {
				start = i
			}
		}
	}
	if start >= 0 {
		out = append(out, s[start:])
	}
	return out
}
