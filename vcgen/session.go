package main

import (
	"fmt"
	"go/token"
	"sort"
	"strings"
)

// A Session is the ordered list of SMT commands generated for one function under contract:
// declarations, assumptions (asserts) and obligations. Obligation k is checked under all facts that
// precede it (push / assert reach / assert (not goal) / check-sat / pop), and then assumed.

type Oblig struct {
	Name   string // <func>/<kind>#n
	Func   string
	Kind   string
	Tags   []string
	Reach  string
	Goal   string
	Pos    token.Position
	Cover  bool // must be SAT (vacuity check)
	Canary bool // deliberately false clause: must be refuted (SAT); never assumed
	Explicit bool // postcondition clause with explicit property tags: assumed only by later clauses that share a tag
	NoAssume bool // obligation listed as a known finding (of any property): never assumed afterwards
	Detail string
	// result
	Result string // unsat | sat | unknown | timeout | error
	Solver string
	Ms     int64
	Model  string
	Index  int // item index in the session
}

type Item struct {
	Text string
	Ob   *Oblig
}

type Session struct {
	Func     string
	Items    []Item
	declared map[string]string
	n        int
	kindN    map[string]int
	strConst map[string]string
	Obligs   []*Oblig
	Unsup    string // non-empty: function is outside the subset (reason)
	Trusted  bool
	Assumed  []string // clauses of this function that are assumed, not proved
	usesQuant bool
	ReplayStr *StrV // the input buffer (pre-state) for counterexample replay
}

// neverAssume: obligation names listed as known findings (all properties); a refuted clause must not
// become a hypothesis of the obligations that follow it in the same function.
var neverAssume = map[string]bool{}

// checkedProperty: the property id of the running `check` command ("" for `verify`).
var checkedProperty string

func loadNeverAssume() {
	fs, err := loadFindings(verifDir() + "/known_findings.txt")
	if err != nil {
		return
	}
	for _, f := range fs {
		if f.Kind == "finding" && f.Obligation != "" {
			neverAssume[f.Obligation] = true
		}
	}
}

func NewSession(fn string) *Session {
	s := &Session{Func: fn, declared: map[string]string{}, kindN: map[string]int{}, strConst: map[string]string{}}
	s.Items = append(s.Items, Item{Text: "(declare-fun birth (Int) Int)"})
	return s
}

func (s *Session) decl(name string, sort Sort) string {
	q := sym(name)
	if old, ok := s.declared[q]; ok {
		if old != sort {
			panic(fmt.Sprintf("redeclared %s: %s vs %s", q, old, sort))
		}
		return q
	}
	s.declared[q] = sort
	s.Items = append(s.Items, Item{Text: fmt.Sprintf("(declare-const %s %s)", q, sort)})
	return q
}

func (s *Session) declFun(name string, args []Sort, res Sort) string {
	q := sym(name)
	sig := strings.Join(args, " ") + "->" + res
	if old, ok := s.declared[q]; ok {
		if old != sig {
			panic(fmt.Sprintf("redeclared fun %s: %s vs %s", q, old, sig))
		}
		return q
	}
	s.declared[q] = sig
	s.Items = append(s.Items, Item{Text: fmt.Sprintf("(declare-fun %s (%s) %s)", q, strings.Join(args, " "), res)})
	return q
}

func (s *Session) fresh(prefix string, sort Sort) string {
	s.n++
	return s.decl(fmt.Sprintf("%s!%d", prefix, s.n), sort)
}

func (s *Session) assert(t string) {
	if t == "true" {
		return
	}
	s.Items = append(s.Items, Item{Text: "(assert " + t + ")"})
}

func (s *Session) comment(c string) {
	s.Items = append(s.Items, Item{Text: "; " + strings.ReplaceAll(c, "\n", " ")})
}

// define introduces a named abbreviation for a term.
func (s *Session) define(prefix string, sort Sort, t string) string {
	if len(t) < 24 {
		return t
	}
	c := s.fresh(prefix, sort)
	s.assert(eq(c, t))
	return c
}

func (s *Session) oblig(kind, label string, tags []string, reach, goal string, pos token.Position, detail string) *Oblig {
	var name string
	if label != "" {
		name = fmt.Sprintf("%s/%s:%s", s.Func, kind, label)
		if s.kindN[name] > 0 {
			name = fmt.Sprintf("%s~%d", name, s.kindN[name])
		}
		s.kindN[fmt.Sprintf("%s/%s:%s", s.Func, kind, label)]++
	} else {
		s.kindN[kind]++
		name = fmt.Sprintf("%s/%s#%d", s.Func, kind, s.kindN[kind])
	}
	ob := &Oblig{Name: name, Func: s.Func, Kind: kind, Tags: tags, Reach: reach, Goal: goal, Pos: pos, Detail: detail}
	for _, t := range tags {
		if t == "canary" {
			ob.Canary = true
		}
	}
	if neverAssume[name] || kind == "frame" || kind == "variant" {
		// write-set and termination obligations are not facts later reasoning needs; assuming a refuted
		// one would make the rest of the path vacuous for the checks of the other properties
		ob.NoAssume = true
	}
	ob.Index = len(s.Items)
	s.Items = append(s.Items, Item{Ob: ob})
	s.Obligs = append(s.Obligs, ob)
	return ob
}

// peekSuffix: the "~N" suffix (N >= 0) the next obligation with this kind and label would get.
func (s *Session) peekSuffix(kind, label string) string {
	return fmt.Sprintf("~%d", s.kindN[fmt.Sprintf("%s/%s:%s", s.Func, kind, label)])
}

// skipName consumes one ordinal of (kind, label) without creating an obligation.
func (s *Session) skipName(kind, label string) {
	s.kindN[fmt.Sprintf("%s/%s:%s", s.Func, kind, label)]++
}

func (s *Session) cover(kind, label string, tags []string, reach string, pos token.Position, detail string) *Oblig {
	ob := s.oblig(kind, label, tags, reach, "false", pos, detail)
	ob.Cover = true
	return ob
}

// script renders the incremental script for all obligations selected by want (nil = all).
// Each obligation prints a marker line so results can be matched.
func (s *Session) script(want func(*Oblig) bool, timeoutMs int, cvc bool) (string, []*Oblig) {
	var b strings.Builder
	var order []*Oblig
	if cvc {
		b.WriteString("(set-option :produce-models true)\n(set-logic ALL)\n")
	} else {
		fmt.Fprintf(&b, "(set-option :timeout %d)\n", timeoutMs)
	}
	var guarded []*Oblig
	for _, it := range s.Items {
		if it.Ob == nil {
			b.WriteString(it.Text)
			b.WriteByte('\n')
			continue
		}
		ob := it.Ob
		if want == nil || want(ob) {
			b.WriteString("(push 1)\n")
			for _, g := range guarded {
				if usesGuarded(ob, g) {
					fmt.Fprintf(&b, "(assert g!%d)\n", g.Index)
				}
			}
			fmt.Fprintf(&b, "(assert %s)\n", ob.Reach)
			if !ob.Cover {
				fmt.Fprintf(&b, "(assert (not %s))\n", ob.Goal)
			}
			if ob.Cover && !cvc {
				// vacuity checks get a short time budget: an inconclusive cover is not an alarm
				fmt.Fprintf(&b, "(echo \"@@ %d\")\n(check-sat-using (try-for smt 1500))\n(pop 1)\n", len(order))
			} else {
				fmt.Fprintf(&b, "(echo \"@@ %d\")\n(check-sat)\n(pop 1)\n", len(order))
			}
			order = append(order, ob)
		}
		if !ob.Cover && !ob.Canary && !ob.NoAssume {
			if ob.Explicit {
				// a clause that belongs to specific properties is a lemma only for clauses of those properties:
				// a change that breaks it must not make the clauses of other properties vacuous
				fmt.Fprintf(&b, "(declare-const g!%d Bool)\n(assert (=> g!%d %s))\n", ob.Index, ob.Index, implies(ob.Reach, ob.Goal))
				guarded = append(guarded, ob)
			} else {
				b.WriteString("(assert " + implies(ob.Reach, ob.Goal) + ")\n")
			}
		}
	}
	return b.String(), order
}

// standalone renders a self-contained query for one obligation (with get-model).
func (s *Session) standalone(target *Oblig, cvc bool, model bool) string {
	var b strings.Builder
	if cvc {
		b.WriteString("(set-option :produce-models true)\n(set-logic ALL)\n")
	}
	for _, it := range s.Items {
		if it.Ob == nil {
			b.WriteString(it.Text)
			b.WriteByte('\n')
			continue
		}
		ob := it.Ob
		if ob == target {
			fmt.Fprintf(&b, "(assert %s)\n", ob.Reach)
			if !ob.Cover {
				fmt.Fprintf(&b, "(assert (not %s))\n", ob.Goal)
			}
			b.WriteString("(check-sat)\n")
			if model {
				b.WriteString("(get-model)\n")
			}
			return b.String()
		}
		if !ob.Cover && !ob.Canary && !ob.NoAssume && (!ob.Explicit || usesGuarded(target, ob)) {
			b.WriteString("(assert " + implies(ob.Reach, ob.Goal) + ")\n")
		}
	}
	panic("standalone: obligation not in session")
}

func sortedKeys[V any](m map[string]V) []string {
	var ks []string
	for k := range m {
		ks = append(ks, k)
	}
	sort.Strings(ks)
	return ks
}

// usesGuarded: may obligation ob use the explicitly tagged postcondition clause g as a hypothesis?
// Yes unless ob is itself an explicitly tagged clause and shares no property tag with g.
func usesGuarded(ob, g *Oblig) bool {
	if !ob.Explicit {
		return true
	}
	if checkedProperty != "" {
		// inside `check <ID>`: only clauses that this very run discharges (tagged <ID>) may support the
		// explicitly tagged clauses, so a hypothesis refuted by the change under test is reported by
		// this run and cannot silently make a clause of <ID> vacuous
		for _, b := range g.Tags {
			if b == checkedProperty {
				return true
			}
		}
		return false
	}
	for _, a := range ob.Tags {
		for _, b := range g.Tags {
			if a == b {
				return true
			}
		}
	}
	return false
}
