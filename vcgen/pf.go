package main

// Ghost positions of AST nodes (C05 / C06).
//
//   ghost.pos[a], ghost.end[a]  the values of Pos() / End() of the node at address a: the documented
//                               position expression of its type over its fields and the ghost positions of
//                               its children (agreement of ast/pos.go with the documentation is C19)
//   ghost.pf[a]                 position soundness of the subtree: 0 <= pos <= end, every non-nil child lies
//                               inside [pos, end], node-typed fields are in non-overlapping declaration
//                               order, slice elements are inside and chained, and every child is itself pf
//
// The executor recomputes the three ghosts after every store into a node object and unfolds
// pf[a] ==> (its definition) when it reads a field of a node.

import (
	"go/types"
	"strings"
)

const ghostPF = "ghost.pf"

func (fx *fnExec) gposOf(st *State, ref string) string { return sel(fx.ghostLeaf(st, ghostPos, SInt), ref) }
func (fx *fnExec) gendOf(st *State, ref string) string { return sel(fx.ghostLeaf(st, ghostEnd, SInt), ref) }
func (fx *fnExec) pfOf(st *State, ref string) string   { return sel(fx.ghostLeaf(st, ghostPF, SBool), ref) }

func (g *Gen) structInfoFor(ht string) *structInfo {
	if g.sinfo == nil {
		g.sinfo = map[string]*structInfo{}
		for _, si := range g.nodeStructs() {
			g.sinfo[g.heapTypeName(si.named)] = si
		}
	}
	return g.sinfo[ht]
}

// heapCatalog evaluates position expressions of the node at address a over the symbolic heap st.
func (fx *fnExec) heapCatalog(st *State, ht, a string) *catalog {
	ni := fx.g.nodeInfos()[ht]
	c := &catalog{g: fx.g, st: ni.st}
	c.fieldFn = func(name string) (cval, bool) {
		for i := 0; i < ni.st.NumFields(); i++ {
			f := ni.st.Field(i)
			if f.Name() != name {
				continue
			}
			v := fx.load(st, PtrV{Addr: a, HT: ht, Path: "." + f.Name(), Elem: f.Type()})
			switch x := v.(type) {
			case Sc:
				if x.S == SBool {
					return cval{kind: "bool", t: x.T}, true
				}
				if f.Type().String() == modPath+"/token.Pos" {
					return cval{kind: "pos", t: x.T}, true
				}
				return cval{}, false
			case StrV:
				return cval{kind: "strlen", t: x.Len}, true
			case PtrV, IfV:
				ref, isNil, _, _ := refOf(v)
				if !isNodeType(fx.g, f.Type()) {
					return cval{}, false
				}
				return cval{kind: "node", isNil: isNil, npos: fx.gposOf(st, ref), nend: fx.gendOf(st, ref)}, true
			case SliceV:
				if !isNodeType(fx.g, x.Elem) {
					return cval{}, false
				}
				first := fx.elemRef(x, "0")
				last := fx.elemRef(x, sub(x.Len, "1"))
				return cval{kind: "nodes", ln: x.Len, fpos: fx.gposOf(st, first), fend: fx.gendOf(st, first), lpos: fx.gposOf(st, last), lend: fx.gendOf(st, last)}, true
			}
			return cval{}, false
		}
		return cval{}, false
	}
	return c
}

// elemRef: the address held by element k of a slice of node references.
func (fx *fnExec) elemRef(v SliceV, k string) string {
	return sel(v.Elems[len(v.Elems)-1], k) // pointer: the only leaf; interface: .ref is the last leaf
}

// posInv: the definition of pf for the node at a.
func (fx *fnExec) posInv(st *State, ht, a string) (pos, end, inv string, ok bool) {
	ni := fx.g.nodeInfos()[ht]
	si := fx.g.structInfoFor(ht)
	if ni == nil || si == nil || si.docPos == "" || si.docEnd == "" {
		return "", "", "", false
	}
	c := fx.heapCatalog(st, ht, a)
	p, err := c.evalDoc(si.docPos)
	if err != nil {
		return "", "", "", false
	}
	e, err := c.evalDoc(si.docEnd)
	if err != nil {
		return "", "", "", false
	}
	var cs []string
	var desc []string
	note := func(d string) {
		for len(desc) < len(cs) {
			desc = append(desc, d)
		}
	}
	defer func() { fx.lastPFParts, fx.lastPFDesc = cs, desc }()
	gp, ge := fx.gposOf(st, a), fx.gendOf(st, a)
	cs = append(cs, app("<=", "0", gp), app("<=", gp, ge))
	note("0 <= pos <= end")
	type child struct{ isNil, pos, end, name string }
	var order []child
	for i := 0; i < ni.st.NumFields(); i++ {
		f := ni.st.Field(i)
		if !f.Exported() {
			continue
		}
		v := fx.load(st, PtrV{Addr: a, HT: ht, Path: "." + f.Name(), Elem: f.Type()})
		switch x := v.(type) {
		case PtrV, IfV:
			if !isNodeType(fx.g, f.Type()) {
				continue
			}
			ref, isNil, _, _ := refOf(v)
			cp, ce := fx.gposOf(st, ref), fx.gendOf(st, ref)
			cs = append(cs, or(isNil, not(eq(ref, a))))
			note("child " + f.Name() + " is not the node itself")
			cs = append(cs, or(isNil, fx.pfOf(st, ref)))
			note("child " + f.Name() + " pf")
			cs = append(cs, or(isNil, app("<=", gp, cp)))
			note("child " + f.Name() + " starts inside")
			cs = append(cs, or(isNil, app("<=", ce, ge)))
			note("child " + f.Name() + " ends inside")
			order = append(order, child{isNil, cp, ce, f.Name()})
		case SliceV:
			if !isNodeType(fx.g, x.Elem) {
				continue
			}
			cs = append(cs, fx.pfAllTerm(st, x))
			note("slice " + f.Name() + " elements pf/ordered")
			{
				f0, l0 := fx.elemRef(x, "0"), fx.elemRef(x, sub(x.Len, "1"))
				cs = append(cs, or(eq(x.Len, "0"), and(app("<=", gp, fx.gposOf(st, f0)), app("<=", fx.gendOf(st, l0), ge))))
				note("slice " + f.Name() + " inside")
			}
			first, last := fx.elemRef(x, "0"), fx.elemRef(x, sub(x.Len, "1"))
			order = append(order, child{eq(x.Len, "0"), fx.gposOf(st, first), fx.gendOf(st, last), f.Name()})
		}
	}
	// siblings in declaration order do not overlap (CreateTable is exempt, as in the property)
	if si.name != "CreateTable" {
		for i := 0; i < len(order); i++ {
			for j := i + 1; j < len(order); j++ {
				cs = append(cs, or(order[i].isNil, order[j].isNil, app("<=", order[i].end, order[j].pos)))
				note(order[i].name + " before " + order[j].name)
			}
		}
	}
	return p, e, and(cs...), true
}

// foldPos: after a store into a node object its ghost positions are recomputed from its fields.
func (fr *frame) foldPos(st *State, ht, addr string) {
	fx := fr.fx
	if !fx.g.isNodeHeapType(ht) || !fx.g.positions {
		return
	}
	p, e, _, ok := fx.posInv(st, ht, addr)
	if !ok {
		return
	}
	st.heap[ghostPos] = fx.s.define("G!pos", arrOf(SInt), store(fx.ghostLeaf(st, ghostPos, SInt), addr, p))
	st.heap[ghostEnd] = fx.s.define("G!end", arrOf(SInt), store(fx.ghostLeaf(st, ghostEnd, SInt), addr, e))
	_, _, inv, _ := fx.posInv(st, ht, addr)
	b := inv
	if strings.Contains(inv, "forall") {
		b = fx.s.fresh("pfval", SBool)
		fx.s.assert(eq(b, inv))
	}
	st.heap[ghostPF] = fx.s.define("G!pf", arrOf(SBool), store(fx.ghostLeaf(st, ghostPF, SBool), addr, b))
}

// unfoldPos: reading a field of a node: its ghost positions are the documented expressions of its
// fields (every function keeps them in sync), and pf gives its definition.
func (fr *frame) unfoldPos(st *State, p PtrV) {
	fx := fr.fx
	if p.Path != "" || !fx.g.isNodeHeapType(p.HT) || !fx.g.positions {
		return
	}
	key := "pos:" + p.Addr + "@" + fx.stateKey(st, p.HT)
	if fx.unfolded == nil {
		fx.unfolded = map[string]bool{}
	}
	if fx.unfolded[key] {
		return
	}
	fx.unfolded[key] = true
	pe, ee, inv, ok := fx.posInv(st, p.HT, p.Addr)
	if !ok {
		return
	}
	pre := and(st.reach, not(eq(p.Addr, "0")), fx.pfOf(st, p.Addr))
	fx.s.assert(implies(pre, and(eq(fx.gposOf(st, p.Addr), pe), eq(fx.gendOf(st, p.Addr), ee), inv)))
}

var _ = types.Typ
