package main

import (
	"bytes"
	"context"
	"fmt"
	"os"
	"os/exec"
	"path/filepath"
	"strings"
	"sync"
	"time"
)

type SolverCfg struct {
	TimeoutMs int  // per obligation
	Thorough  bool // re-check with all solvers
	WorkDir   string
	NoRace    map[string]bool // obligations (known findings) for which the first answer is enough
	noSplit   bool
}

var solveSem = make(chan struct{}, 14)
var solverWins = map[string]int{}
var solverMu sync.Mutex
var solverSeconds float64

func runCmd(ctx context.Context, stdin string, name string, args ...string) (string, error) {
	cmd := exec.CommandContext(ctx, name, args...)
	cmd.Stdin = strings.NewReader(stdin)
	var out bytes.Buffer
	cmd.Stdout = &out
	cmd.Stderr = &out
	err := cmd.Run()
	return out.String(), err
}

// Discharge checks the obligations of a session selected by want.
func Discharge(s *Session, want func(*Oblig) bool, cfg SolverCfg) {
	if s.Unsup != "" || s.Trusted {
		return
	}
	// large sessions are split into chunks of obligations checked by separate solver processes
	var sel []*Oblig
	for _, ob := range s.Obligs {
		if want == nil || want(ob) {
			sel = append(sel, ob)
		}
	}
	const chunk = 40
	if len(sel) > chunk+20 && !cfg.noSplit {
		var wg sync.WaitGroup
		for i := 0; i < len(sel); i += chunk {
			j := i + chunk
			if j > len(sel) {
				j = len(sel)
			}
			part := map[*Oblig]bool{}
			for _, ob := range sel[i:j] {
				part[ob] = true
			}
			wg.Add(1)
			go func() {
				defer wg.Done()
				c2 := cfg
				c2.noSplit = true
				Discharge(s, func(ob *Oblig) bool { return part[ob] }, c2)
			}()
		}
		wg.Wait()
		return
	}
	script, order := s.script(want, cfg.TimeoutMs, false)
	if len(order) == 0 {
		return
	}
	solveSem <- struct{}{}
	released := false
	release := func() {
		if !released {
			released = true
			<-solveSem
		}
	}
	defer release()
	t0 := time.Now()
	ctx, cancel := context.WithTimeout(context.Background(), time.Duration(cfg.TimeoutMs*len(order)+20000)*time.Millisecond)
	out, _ := runCmd(ctx, script, "z3", "-in", "-smt2")
	cancel()
	el := time.Since(t0)
	if os.Getenv("VERIF_DEBUG") != "" && el > 8*time.Second {
		fmt.Fprintf(os.Stderr, "slow session %s: %d obligations %.1fs\n", s.Func, len(order), el.Seconds())
	}
	solverMu.Lock()
	solverSeconds += el.Seconds()
	solverMu.Unlock()
	// parse
	res := map[int]string{}
	cur := -1
	for _, line := range strings.Split(out, "\n") {
		line = strings.TrimSpace(line)
		if strings.HasPrefix(line, "@@ ") {
			fmt.Sscanf(line[3:], "%d", &cur)
			continue
		}
		if strings.HasPrefix(line, "\"@@ ") {
			fmt.Sscanf(line[4:], "%d", &cur)
			continue
		}
		if cur >= 0 && (line == "sat" || line == "unsat" || line == "unknown" || strings.HasPrefix(line, "timeout")) {
			if _, done := res[cur]; !done {
				res[cur] = line
			}
			continue
		}
		if strings.HasPrefix(line, "(error") {
			// any solver error invalidates the whole session: nothing it reports is believed
			res[-1] = line
		}
	}
	if e, bad := res[-1]; bad {
		for _, ob := range order {
			ob.Result = "error"
			ob.Model = e
		}
		if os.Getenv("VERIF_DEBUG") != "" {
			os.WriteFile(filepath.Join(cfg.WorkDir, "error_"+sanitize(s.Func)+".smt2"), []byte(script), 0o644)
		}
		return
	}
	release()
	var wg sync.WaitGroup
	sem := make(chan struct{}, 5)
	for i, ob := range order {
		r := res[i]
		if r == "" {
			r = "unknown"
		}
		ob.Result = r
		ob.Solver = "z3-4.8.12"
		ob.Ms = el.Milliseconds() / int64(len(order))
		expected := "unsat"
		if ob.Cover || ob.Canary {
			expected = "sat"
		}
		if r == expected && (!cfg.Thorough || !crossCheck(ob)) {
			countWin(ob.Solver)
			continue
		}
		if cfg.NoRace[ob.Name] && r != "sat" {
			continue
		}
		if ob.Cover && r != "unsat" && !cfg.Thorough {
			// a cover check that is not refuted is inconclusive, never an alarm
			ob.Result = "inconclusive"
			continue
		}
		// second opinion: race z3-new and cvc5 on a standalone query
		wg.Add(1)
		go func(ob *Oblig) {
			defer wg.Done()
			sem <- struct{}{}
			defer func() { <-sem }()
			c2 := cfg
			if ob.Result == "unsat" && !ob.Cover && !ob.Canary {
				// cross-check of an obligation that is already discharged: a solver that has no answer
				// within 30 s has no opinion (only sat-vs-unsat disagreement counts)
				c2.TimeoutMs = 30000
				keep := *ob
				raceStandalone(s, ob, c2)
				if ob.Result != "unsat" && ob.Result != "error" && ob.Result != "sat" {
					*ob = keep
				}
				return
			}
			raceStandalone(s, ob, c2)
		}(ob)
	}
	wg.Wait()
}

// crossCheck: in the thorough tier an obligation that z3 4.8 discharged is re-decided standalone by all
// three solvers. That is affordable for a bounded number of obligations only: the clauses that state the
// property (not the safety / frame obligations that come by the thousand) up to a budget, chosen by name hash.
var xcheckBudget = 600
var xcheckUsed int
var XcheckDone int

func crossCheck(ob *Oblig) bool {
	for _, t := range ob.Tags {
		if t == "safety" || t == "frame" || t == "vacuity" {
			return false
		}
	}
	solverMu.Lock()
	defer solverMu.Unlock()
	if xcheckUsed >= xcheckBudget {
		return false
	}
	h := 0
	for _, c := range ob.Name {
		h = (h*31 + int(c)) % 1000003
	}
	if (h+xcheckSeed)%3 != 0 && xcheckBudget < 100000 {
		return false
	}
	xcheckUsed++
	XcheckDone++
	return true
}

var xcheckSeed int

func countWin(solver string) {
	solverMu.Lock()
	solverWins[solver]++
	solverMu.Unlock()
}

func sanitize(s string) string {
	r := strings.NewReplacer("/", "_", "*", "", "(", "", ")", "", " ", "_", ":", "_", "#", "_", "$", "_")
	return r.Replace(s)
}

type raceResult struct {
	solver string
	res    string
	out    string
	ms     int64
}

func raceStandalone(s *Session, ob *Oblig, cfg SolverCfg) {
	first := ob.Result
	q := s.standalone(ob, false, true)
	qc := s.standalone(ob, true, false)
	ctx, cancel := context.WithTimeout(context.Background(), time.Duration(cfg.TimeoutMs)*time.Millisecond)
	defer cancel()
	ch := make(chan raceResult, 3)
	run := func(solver string, input string, name string, args ...string) {
		t0 := time.Now()
		out, _ := runCmd(ctx, input, name, args...)
		line := strings.TrimSpace(strings.SplitN(out, "\n", 2)[0])
		if line != "sat" && line != "unsat" {
			if strings.Contains(out, "\nunsat") {
				line = "unsat"
			} else if ctx.Err() != nil {
				line = "timeout"
			} else if line != "unknown" {
				line = "unknown"
			}
		}
		ch <- raceResult{solver, line, out, time.Since(t0).Milliseconds()}
	}
	n := 2
	go run("z3-5.1.0", q, "z3-new", "-in", "-smt2", fmt.Sprintf("-T:%d", cfg.TimeoutMs/1000+1))
	go run("cvc5-1.0", qc, "cvc5", "--lang=smt2", fmt.Sprintf("--tlimit=%d", cfg.TimeoutMs), "-")
	if cfg.Thorough {
		n = 3
		go run("z3-4.8.12", q, "z3", "-in", "-smt2", fmt.Sprintf("-T:%d", cfg.TimeoutMs/1000+1))
	}
	expected := "unsat"
	if ob.Cover || ob.Canary {
		expected = "sat"
	}
	var results []raceResult
	for i := 0; i < n; i++ {
		r := <-ch
		results = append(results, r)
		solverMu.Lock()
		solverSeconds += float64(r.ms) / 1000
		solverMu.Unlock()
		if !cfg.Thorough && (r.res == "sat" || r.res == "unsat") {
			cancel()
			break
		}
	}
	// decide
	var sat, unsat *raceResult
	for i := range results {
		switch results[i].res {
		case "sat":
			sat = &results[i]
		case "unsat":
			unsat = &results[i]
		}
	}
	if first == "sat" && sat == nil && !cfg.Thorough {
		sat = &raceResult{solver: "z3-4.8.12", res: "sat"}
	}
	switch {
	case sat != nil && unsat != nil:
		ob.Result = "error"
		ob.Model = fmt.Sprintf("solvers disagree: %s says sat, %s says unsat", sat.solver, unsat.solver)
	case expected == "unsat" && unsat != nil:
		ob.Result, ob.Solver, ob.Ms = "unsat", unsat.solver, unsat.ms
		countWin(unsat.solver)
	case sat != nil:
		ob.Result, ob.Solver, ob.Ms = "sat", sat.solver, sat.ms
		if i := strings.Index(sat.out, "\n"); i >= 0 {
			ob.Model = sat.out[i+1:]
		}
		if ob.Cover {
			countWin(sat.solver)
		}
	case unsat != nil:
		ob.Result, ob.Solver, ob.Ms = "unsat", unsat.solver, unsat.ms
	default:
		ob.Result = "unknown"
		for _, r := range results {
			if r.res == "timeout" {
				ob.Result = "timeout"
			}
		}
	}
}
