package main

// Symbolic values and the flattening of Go types into SMT leaves.
//
// Memory model (Burstall/Bornat components): for every (heap type, leaf path) there is one SMT array
// indexed by object address (Int). Struct-valued fields are flattened into their container. A value of a
// Go type is represented in the executor by a tree (Val) whose leaves are SMT terms of sort Int, Bool or
// (nested) Array.

import (
	"fmt"
	"go/types"
	"strings"

	"golang.org/x/tools/go/ssa"
)

type Sort = string

const (
	SInt  = "Int"
	SBool = "Bool"
)

func arrOf(s Sort) Sort { return "(Array Int " + s + ")" }

type Val interface{}

type Sc struct { // scalar
	T string
	S Sort
}
type StrV struct{ Arr, Off, Len string }
type IfV struct{ Tag, Ref string }
type SliceV struct {
	Elem     types.Type
	Len, Off string
	Nil      string   // Bool term: the slice is nil
	Elems    []string // one array per leaf of Elem
}
type ArrV struct {
	Elem  types.Type
	Elems []string
}
type StructV struct {
	T types.Type // the (possibly named) struct type
	F []Val
}
type PtrV struct {
	Addr  string
	HT    string     // heap type name of the object at Addr
	Path  string     // leaf path prefix inside HT
	Elem  types.Type // pointee type
	Local *ssa.Alloc // non-nil if this is the address of a local Alloc (for diagnostics)
}
type TupleV struct{ V []Val }
type FuncV struct {
	Fn   *ssa.Function
	Bind []Val
	Term string
}

type Leaf struct {
	Path string
	S    Sort
	Ref  bool // the leaf holds an object address (pointer, or the reference part of an interface)
}

func structOf(t types.Type) *types.Struct {
	s, _ := t.Underlying().(*types.Struct)
	return s
}

func (g *Gen) leaves(t types.Type) []Leaf {
	key := t.String()
	if l, ok := g.leafCache[key]; ok {
		return l
	}
	var out []Leaf
	switch u := t.Underlying().(type) {
	case *types.Basic:
		switch {
		case u.Info()&types.IsBoolean != 0:
			out = []Leaf{{"", SBool, false}}
		case u.Info()&types.IsString != 0:
			out = []Leaf{{".arr", arrOf(SInt), false}, {".off", SInt, false}, {".len", SInt, false}}
		default:
			out = []Leaf{{"", SInt, false}}
		}
	case *types.Pointer:
		out = []Leaf{{"", SInt, true}}
	case *types.Map, *types.Signature, *types.Chan:
		out = []Leaf{{"", SInt, false}}
	case *types.Interface:
		out = []Leaf{{".tag", SInt, false}, {".ref", SInt, true}}
	case *types.Slice:
		out = []Leaf{{".len", SInt, false}, {".nil", SBool, false}}
		for _, l := range g.leaves(u.Elem()) {
			out = append(out, Leaf{".elem" + l.Path, arrOf(l.S), false})
		}
	case *types.Array:
		for _, l := range g.leaves(u.Elem()) {
			out = append(out, Leaf{".elem" + l.Path, arrOf(l.S), false})
		}
	case *types.Struct:
		for i := 0; i < u.NumFields(); i++ {
			f := u.Field(i)
			for _, l := range g.leaves(f.Type()) {
				out = append(out, Leaf{"." + f.Name() + l.Path, l.S, l.Ref})
			}
		}
	case *types.Tuple:
		for i := 0; i < u.Len(); i++ {
			for _, l := range g.leaves(u.At(i).Type()) {
				out = append(out, Leaf{fmt.Sprintf(".%d%s", i, l.Path), l.S, l.Ref})
			}
		}
	case *types.TypeParam:
		out = []Leaf{{".tag", SInt, false}, {".ref", SInt, true}}
	default:
		panic(fmt.Sprintf("leaves: unsupported type %v (%T)", t, u))
	}
	g.leafCache[key] = out
	return out
}

func (g *Gen) fromLeaves(t types.Type, terms []string) Val {
	v, rest := g.fromLeaves1(t, terms)
	if len(rest) != 0 {
		panic("fromLeaves: leftover terms")
	}
	return v
}

func (g *Gen) fromLeaves1(t types.Type, terms []string) (Val, []string) {
	switch u := t.Underlying().(type) {
	case *types.Basic:
		switch {
		case u.Info()&types.IsBoolean != 0:
			return Sc{terms[0], SBool}, terms[1:]
		case u.Info()&types.IsString != 0:
			return StrV{terms[0], terms[1], terms[2]}, terms[3:]
		default:
			return Sc{terms[0], SInt}, terms[1:]
		}
	case *types.Pointer:
		return PtrV{Addr: terms[0], HT: g.heapTypeName(u.Elem()), Elem: u.Elem()}, terms[1:]
	case *types.Map, *types.Signature, *types.Chan:
		return Sc{terms[0], SInt}, terms[1:]
	case *types.Interface, *types.TypeParam:
		return IfV{terms[0], terms[1]}, terms[2:]
	case *types.Slice:
		n := len(g.leaves(u.Elem()))
		return SliceV{Elem: u.Elem(), Len: terms[0], Off: "0", Nil: terms[1], Elems: append([]string{}, terms[2:2+n]...)}, terms[2+n:]
	case *types.Array:
		n := len(g.leaves(u.Elem()))
		return ArrV{Elem: u.Elem(), Elems: append([]string{}, terms[:n]...)}, terms[n:]
	case *types.Struct:
		sv := StructV{T: t}
		for i := 0; i < u.NumFields(); i++ {
			var f Val
			f, terms = g.fromLeaves1(u.Field(i).Type(), terms)
			sv.F = append(sv.F, f)
		}
		return sv, terms
	case *types.Tuple:
		tv := TupleV{}
		for i := 0; i < u.Len(); i++ {
			var f Val
			f, terms = g.fromLeaves1(u.At(i).Type(), terms)
			tv.V = append(tv.V, f)
		}
		return tv, terms
	}
	panic(fmt.Sprintf("fromLeaves: unsupported type %v", t))
}

func (g *Gen) toLeaves(v Val) []string {
	switch x := v.(type) {
	case Sc:
		return []string{x.T}
	case StrV:
		return []string{x.Arr, x.Off, x.Len}
	case IfV:
		return []string{x.Tag, x.Ref}
	case PtrV:
		if x.Path != "" {
			panic(unsupported("interior pointer used as a value: " + x.HT + x.Path))
		}
		return []string{x.Addr}
	case SliceV:
		if x.Off != "0" {
			panic(unsupported("slice with non-zero offset used as a value"))
		}
		return append([]string{x.Len, x.Nil}, x.Elems...)
	case ArrV:
		return append([]string{}, x.Elems...)
	case StructV:
		var out []string
		for _, f := range x.F {
			out = append(out, g.toLeaves(f)...)
		}
		return out
	case TupleV:
		var out []string
		for _, f := range x.V {
			out = append(out, g.toLeaves(f)...)
		}
		return out
	case FuncV:
		if x.Term == "" {
			return []string{"0"}
		}
		return []string{x.Term}
	}
	panic(fmt.Sprintf("toLeaves: %T", v))
}

func (g *Gen) heapTypeName(t types.Type) string {
	switch u := t.(type) {
	case *types.Named:
		if u.Obj().Pkg() != nil {
			return u.Obj().Pkg().Name() + "." + u.Obj().Name()
		}
		return u.Obj().Name()
	case *types.Alias:
		return g.heapTypeName(types.Unalias(t))
	}
	s := t.String()
	s = strings.ReplaceAll(s, "github.com/cloudspannerecosystem/memefish/", "")
	s = strings.ReplaceAll(s, "github.com/cloudspannerecosystem/memefish", "memefish")
	r := strings.NewReplacer(" ", "_", "|", "!", "\\", "!")
	return "cell<" + r.Replace(s) + ">"
}

// zero value of a type
func (g *Gen) zero(t types.Type) Val {
	ls := g.leaves(t)
	terms := make([]string, len(ls))
	for i, l := range ls {
		terms[i] = g.zeroOf(l.S)
		if strings.HasSuffix(l.Path, ".nil") && l.S == SBool {
			terms[i] = "true"
		}
	}
	return g.fromLeaves(t, terms)
}

func (g *Gen) zeroOf(s Sort) string {
	switch s {
	case SInt:
		return "0"
	case SBool:
		return "false"
	}
	// array sorts: a constant array of zeros
	inner := strings.TrimSuffix(strings.TrimPrefix(s, "(Array Int "), ")")
	return "((as const " + s + ") " + g.zeroOf(inner) + ")"
}

type unsupported string

func (u unsupported) Error() string { return string(u) }

// ---- SMT term helpers

func app(op string, args ...string) string {
	return "(" + op + " " + strings.Join(args, " ") + ")"
}
func and(args ...string) string {
	var a []string
	for _, x := range args {
		if x == "true" {
			continue
		}
		if x == "false" {
			return "false"
		}
		a = append(a, x)
	}
	switch len(a) {
	case 0:
		return "true"
	case 1:
		return a[0]
	}
	return app("and", a...)
}
func or(args ...string) string {
	var a []string
	for _, x := range args {
		if x == "false" {
			continue
		}
		if x == "true" {
			return "true"
		}
		a = append(a, x)
	}
	switch len(a) {
	case 0:
		return "false"
	case 1:
		return a[0]
	}
	return app("or", a...)
}
func not(x string) string {
	switch x {
	case "true":
		return "false"
	case "false":
		return "true"
	}
	if strings.HasPrefix(x, "(not ") {
		return x[5 : len(x)-1]
	}
	return app("not", x)
}
func implies(a, b string) string {
	if a == "true" {
		return b
	}
	if a == "false" || b == "true" {
		return "true"
	}
	return app("=>", a, b)
}
func ite(c, a, b string) string {
	if c == "true" {
		return a
	}
	if c == "false" {
		return b
	}
	if a == b {
		return a
	}
	return app("ite", c, a, b)
}
func eq(a, b string) string {
	if a == b {
		return "true"
	}
	return app("=", a, b)
}
func num(n int64) string {
	if n < 0 {
		return fmt.Sprintf("(- %d)", -n)
	}
	return fmt.Sprint(n)
}
func sel(a, i string) string        { return app("select", a, i) }
func store(a, i, v string) string   { return app("store", a, i, v) }
func add(a, b string) string {
	if b == "0" {
		return a
	}
	if a == "0" {
		return b
	}
	return app("+", a, b)
}
func sub(a, b string) string {
	if b == "0" {
		return a
	}
	return app("-", a, b)
}

func sym(s string) string {
	ok := true
	for _, c := range s {
		if !(c >= 'a' && c <= 'z' || c >= 'A' && c <= 'Z' || c >= '0' && c <= '9' || c == '_' || c == '.' || c == '$' || c == '!') {
			ok = false
			break
		}
	}
	if ok && s != "" && !(s[0] >= '0' && s[0] <= '9') {
		return s
	}
	return "|" + strings.ReplaceAll(s, "|", "!") + "|"
}
