package main

// Evaluation of contract expressions against a symbolic state.

import (
	"os"
	"fmt"
	"go/types"
	"strings"

	"golang.org/x/tools/go/ssa"
)

type Env struct {
	fx    *fnExec
	vars  map[string]TV
	cur   *State
	old   *State
	fr    *frame          // for loop invariants: resolve local names
	at    *ssa.BasicBlock // loop header where names are resolved
	pkg   *types.Package
	bound map[string]bool
	qdepth int
	atEnd  bool // names are resolved at the end of block `at` (postconditions), not at its head
	params    map[string]bool // names that are parameters (not results / lets)
	prevVals  map[*ssa.Phi]Val // step clauses: header values of the loop's phis
	prevState *State
	entryVals  map[*ssa.Phi]Val // atentry(e): header phis as they were when the loop was entered
	entryState *State
	noRename  bool              // already resolving a renamed local
	stepFrom  *ssa.BasicBlock   // step clauses: the source block of the back edge
	strong    map[string]string // strong(name): "self" and function-typed parameters
}

func (fx *fnExec) baseEnv(cur *State) *Env {
	env := &Env{fx: fx, vars: map[string]TV{}, cur: cur, old: fx.pre, pkg: fx.fn.Pkg.Pkg}
	env.params = map[string]bool{}
	for k, v := range fx.penv {
		env.vars[k] = v
		env.params[k] = true
	}
	for k, v := range fx.lets {
		env.vars[k] = v
	}
	return env
}

func (e *Env) with(name string, v TV) *Env {
	n := *e
	n.vars = map[string]TV{}
	for k, x := range e.vars {
		n.vars[k] = x
	}
	n.vars[name] = v
	return &n
}

func (fx *fnExec) evalBool(e *Expr, env *Env) string {
	tv := fx.eval(e, env)
	sc, ok := tv.V.(Sc)
	if !ok || sc.S != SBool {
		panic(contractErr(fmt.Sprintf("expected boolean: %s (got %T)", e, tv.V)))
	}
	return sc.T
}

func (fx *fnExec) evalInt(e *Expr, env *Env) string {
	tv := fx.eval(e, env)
	switch x := tv.V.(type) {
	case Sc:
		if x.S == SInt {
			return x.T
		}
	case PtrV:
		return x.Addr
	}
	panic(contractErr(fmt.Sprintf("expected integer: %s (got %T)", e, tv.V)))
}

type contractErr string

func (c contractErr) Error() string { return "contract error: " + string(c) }

var tInt = types.Typ[types.Int]
var tBool = types.Typ[types.Bool]
var tString = types.Typ[types.String]

func (fx *fnExec) eval(e *Expr, env *Env) TV {
	g := fx.g
	switch e.Op {
	case "int":
		return TV{Sc{num(e.Int), SInt}, tInt}
	case "str":
		return TV{fx.strLit(e.Str), tString}
	case "id":
		switch e.Name {
		case "true":
			return TV{Sc{"true", SBool}, tBool}
		case "false":
			return TV{Sc{"false", SBool}, tBool}
		case "nil":
			return TV{Sc{"0", SInt}, types.Typ[types.UntypedNil]}
		}
		if env.fr != nil && env.at != nil && !env.atEnd {
			// a parameter that the loop re-assigns: inside loop clauses its name denotes the loop-carried value
			if _, isParam := env.vars[e.Name]; isParam && env.params[e.Name] {
				for _, v := range env.fr.names[e.Name] {
					if phi, ok := v.(*ssa.Phi); ok && phi.Block() == env.at {
						if pv, ok := env.fr.vals[phi]; ok {
							return TV{pv, phi.Type()}
						}
					}
				}
			}
		}
		if v, ok := env.vars[e.Name]; ok {
			return v
		}
		if e.Name == "rangepos" && env.fr != nil {
			// byte offset of the next element of the function's range-over-string loop
			var it *RangeV
			for _, v := range env.fr.vals {
				if rv, ok := v.(RangeV); ok {
					if it != nil && it.Cell != rv.Cell {
						panic(contractErr("rangepos: more than one range-over-string in " + fx.fn.String()))
					}
					r2 := rv
					it = &r2
				}
			}
			if it == nil {
				panic(contractErr("rangepos: no range-over-string in " + fx.fn.String()))
			}
			return TV{Sc{sel(fx.heapLeaf(env.cur, rangeLeaf, SInt), it.Cell), SInt}, tInt}
		}
		if env.fr != nil {
			if al, ok := env.fr.cells[e.Name]; ok {
				if pv, ok := env.fr.vals[al].(PtrV); ok {
					return TV{fx.load(env.cur, pv), pv.Elem}
				}
			}
			if v, ok := env.fr.resolveName(e.Name, env.at, env.atEnd); ok {
				return v
			}
			if env.stepFrom != nil {
				// step clauses: a name defined in the loop body denotes its value in the iteration just done
				if v, ok := env.fr.resolveName(e.Name, env.stepFrom, true); ok {
					return v
				}
			}
		}
		// package-level constant or variable (variables are read-only after init: one constant per leaf)
		if obj := env.pkg.Scope().Lookup(e.Name); obj != nil {
			if c, ok := obj.(*types.Const); ok {
				return fx.constTV(c)
			}
			if v, ok := obj.(*types.Var); ok {
				ht := "global:" + env.pkg.Name() + "." + v.Name()
				ls := fx.g.leaves(v.Type())
				terms := make([]string, len(ls))
				for i, l := range ls {
					terms[i] = fx.s.decl(ht+l.Path, l.S)
				}
				return TV{fx.g.fromLeaves(v.Type(), terms), v.Type()}
			}
		}
		if env.fr != nil && !env.noRename {
			// the local may have been renamed: same shape under exactly one other name (localsigs.json)
			if nn, ok := fx.renamedLocal(env.fr.fn, e.Name); ok {
				e2 := *e
				e2.Name = nn
				env2 := *env
				env2.noRename = true
				fx.renamed = appendUnique(fx.renamed, e.Name+" -> "+nn)
				return fx.eval(&e2, &env2)
			}
		}
		panic(contractErr("unknown identifier " + e.Name + " in " + fx.fn.String()))
	case "sel":
		// qualified constant pkg.Name
		if id := e.Args[0]; id.Op == "id" {
			if _, isVar := env.vars[id.Name]; !isVar {
				for _, imp := range append(env.pkg.Imports(), env.pkg) {
					if imp.Name() == id.Name {
						if c, ok := imp.Scope().Lookup(e.Name).(*types.Const); ok {
							return fx.constTV(c)
						}
					}
				}
			}
		}
		base := fx.eval(e.Args[0], env)
		return fx.selectField(base, e.Name, env)
	case "idx":
		base := fx.eval(e.Args[0], env)
		idx := fx.evalInt(e.Args[1], env)
		switch b := base.V.(type) {
		case StrV:
			return TV{Sc{sel(b.Arr, add(b.Off, idx)), SInt}, types.Typ[types.Uint8]}
		case SliceV:
			terms := make([]string, len(b.Elems))
			for i, el := range b.Elems {
				terms[i] = sel(el, add(b.Off, idx))
			}
			return TV{g.fromLeaves(b.Elem, terms), b.Elem}
		}
		panic(contractErr("index on " + fmt.Sprintf("%T", base.V)))
	case "slice":
		base := fx.eval(e.Args[0], env)
		switch b := base.V.(type) {
		case StrV:
			lo, hi := "0", b.Len
			if e.Args[1] != nil {
				lo = fx.evalInt(e.Args[1], env)
			}
			if e.Args[2] != nil {
				hi = fx.evalInt(e.Args[2], env)
			}
			return TV{StrV{b.Arr, add(b.Off, lo), sub(hi, lo)}, base.T}
		case SliceV:
			lo, hi := "0", b.Len
			if e.Args[1] != nil {
				lo = fx.evalInt(e.Args[1], env)
			}
			if e.Args[2] != nil {
				hi = fx.evalInt(e.Args[2], env)
			}
			if lo != "0" {
				panic(contractErr("slice expression with non-zero lower bound on a slice"))
			}
			return TV{SliceV{Elem: b.Elem, Len: sub(hi, lo), Off: "0", Nil: b.Nil, Elems: b.Elems}, base.T}
		}
		panic(contractErr("slice on " + fmt.Sprintf("%T", base.V)))
	case "un":
		switch e.Name {
		case "!":
			return TV{Sc{not(fx.evalBool(e.Args[0], env)), SBool}, tBool}
		case "-":
			return TV{Sc{app("-", fx.evalInt(e.Args[0], env)), SInt}, tInt}
		}
	case "bin":
		return fx.evalBin(e, env)
	case "forall", "exists":
		v := fmt.Sprintf("%s!b%d", e.Name, env.qdepth)
		env2 := env.with(e.Name, TV{Sc{sym(v), SInt}, tInt})
		env2.qdepth = env.qdepth + 1
		body := fx.evalBool(e.Args[0], env2)
		fx.s.usesQuant = true
		if e.Op == "forall" {
			if nb, ok := absolutise(body, sym(v), sym(v+"a")); ok {
				body = nb
				v = v + "a"
			}
			if trg := triggers(body, sym(v)); len(trg) > 0 && len(trg) <= 6 {
				var pats []string
				for _, t := range trg {
					pats = append(pats, ":pattern ("+t+")")
				}
				body = "(! " + body + " " + strings.Join(pats, " ") + ")"
			}
		}
		return TV{Sc{fmt.Sprintf("(%s ((%s Int)) %s)", e.Op, sym(v), body), SBool}, tBool}
	case "call":
		return fx.evalCall(e, env)
	}
	panic(contractErr("cannot evaluate " + e.String()))
}

func (fx *fnExec) constTV(c *types.Const) TV {
	v := fx.constVal(ssa.NewConst(c.Val(), c.Type()))
	return TV{v, c.Type()}
}

// resolveName finds the SSA value that holds source variable `name` at loop header `at`:
// a phi of that header (or of an enclosing header) named `name`, else the latest dominating definition.
func (fr *frame) resolveName(name string, at *ssa.BasicBlock, atEnd bool) (TV, bool) {
	cands := fr.names[name]
	// prefer a phi at this header
	for _, v := range cands {
		if phi, ok := v.(*ssa.Phi); ok && phi.Block() == at && !atEnd {
			return TV{fr.vals[phi], phi.Type()}, true
		}
	}
	if atEnd {
		// the latest definition in `at` itself, if any
		for i := len(cands) - 1; i >= 0; i-- {
			if in, ok := cands[i].(ssa.Instruction); ok && in.Block() == at {
				if val, ok := fr.vals[cands[i]]; ok {
					return TV{val, cands[i].Type()}, true
				}
			}
		}
	}
	var best ssa.Value
	for _, v := range cands {
		switch x := v.(type) {
		case *ssa.Parameter, *ssa.FreeVar, *ssa.Const:
			if best == nil {
				best = v
			}
		case ssa.Instruction:
			b := x.Block()
			if b != at && b.Dominates(at) {
				if _, ok := fr.vals[v]; !ok {
					continue
				}
				if best == nil {
					best = v
				} else if bi, ok := best.(ssa.Instruction); ok {
					if bi.Block().Dominates(b) {
						best = v
					}
				} else {
					best = v
				}
			}
		}
	}
	if best == nil {
		return TV{}, false
	}
	return TV{fr.val(best), best.Type()}, true
}

func (fx *fnExec) selectField(base TV, name string, env *Env) TV {
	g := fx.g
	// auto-deref chain via go/types
	t := base.T
	obj, index := lookupField(t, env.pkg, name)
	fld, ok := obj.(*types.Var)
	if !ok || !fld.IsField() {
		panic(contractErr(fmt.Sprintf("no field %s in %v", name, t)))
	}
	cur := base
	for _, i := range index {
		// deref pointers
		if pt, isPtr := cur.T.Underlying().(*types.Pointer); isPtr {
			p := cur.V.(PtrV)
			st := structOf(pt.Elem())
			f := st.Field(i)
			cur = TV{PtrV{Addr: p.Addr, HT: p.HT, Path: p.Path + "." + f.Name(), Elem: f.Type(), Local: p.Local}, types.NewPointer(f.Type())}
			// immediately load (fields are values); keep pointer form only for nested value structs
			cur = fx.loadTV(env.cur, cur)
			continue
		}
		sv, ok := cur.V.(StructV)
		if !ok {
			panic(contractErr(fmt.Sprintf("select %s on %T", name, cur.V)))
		}
		st := structOf(cur.T)
		cur = TV{sv.F[i], st.Field(i).Type()}
	}
	_ = g
	return cur
}

// loadTV loads the value a field pointer refers to; value-struct fields stay as lazily loaded
// struct values (we load all leaves; terms are small selects).
func (fx *fnExec) loadTV(st *State, p TV) TV {
	pv := p.V.(PtrV)
	if strings.HasPrefix(pv.HT, "global:") {
		panic(contractErr("global in contract"))
	}
	return TV{fx.load(st, pv), pv.Elem}
}

func (fx *fnExec) evalBin(e *Expr, env *Env) TV {
	op := e.Name
	switch op {
	case "&&":
		return TV{Sc{and(fx.evalBool(e.Args[0], env), fx.evalBool(e.Args[1], env)), SBool}, tBool}
	case "||":
		return TV{Sc{or(fx.evalBool(e.Args[0], env), fx.evalBool(e.Args[1], env)), SBool}, tBool}
	case "==>":
		return TV{Sc{implies(fx.evalBool(e.Args[0], env), fx.evalBool(e.Args[1], env)), SBool}, tBool}
	case "<==>":
		return TV{Sc{eq(fx.evalBool(e.Args[0], env), fx.evalBool(e.Args[1], env)), SBool}, tBool}
	}
	a := fx.eval(e.Args[0], env)
	b := fx.eval(e.Args[1], env)
	switch op {
	case "==", "!=":
		var t string
		switch av := a.V.(type) {
		case StrV:
			bv, ok := b.V.(StrV)
			if !ok {
				panic(contractErr("string compared with non-string in " + e.String()))
			}
			t = fx.strEq(av, bv)
		case IfV:
			switch bv := b.V.(type) {
			case IfV:
				t = and(eq(av.Tag, bv.Tag), eq(av.Ref, bv.Ref))
			case Sc: // nil
				t = eq(av.Tag, "0")
			case PtrV:
				t = eq(av.Ref, bv.Addr)
			}
		case PtrV:
			switch bv := b.V.(type) {
			case PtrV:
				t = eq(av.Addr, bv.Addr)
			case Sc:
				t = eq(av.Addr, bv.T)
			case IfV:
				t = eq(av.Addr, bv.Ref)
			}
		case Sc:
			switch bv := b.V.(type) {
			case Sc:
				t = eq(av.T, bv.T)
			case PtrV:
				t = eq(av.T, bv.Addr)
			case IfV:
				t = eq(bv.Tag, "0")
			}
		case SliceV:
			bv, ok := b.V.(SliceV)
			if ok {
				cs := []string{eq(av.Len, bv.Len), eq(av.Nil, bv.Nil)}
				for i := range av.Elems {
					cs = append(cs, eq(av.Elems[i], bv.Elems[i]))
				}
				t = and(cs...)
			}
		case StructV:
			la, lb := fx.g.toLeaves(a.V), fx.g.toLeaves(b.V)
			var cs []string
			for i := range la {
				cs = append(cs, eq(la[i], lb[i]))
			}
			t = and(cs...)
		}
		if t == "" {
			panic(contractErr("cannot compare in " + e.String()))
		}
		if op == "!=" {
			t = not(t)
		}
		return TV{Sc{t, SBool}, tBool}
	}
	x, y := fx.asInt(a, e), fx.asInt(b, e)
	switch op {
	case "<", "<=", ">", ">=":
		return TV{Sc{app(op, x, y), SBool}, tBool}
	case "+":
		return TV{Sc{add(x, y), SInt}, tInt}
	case "-":
		return TV{Sc{sub(x, y), SInt}, tInt}
	case "*":
		return TV{Sc{app("*", x, y), SInt}, tInt}
	case "/":
		return TV{Sc{app("div", x, y), SInt}, tInt}
	case "%":
		return TV{Sc{app("mod", x, y), SInt}, tInt}
	}
	panic(contractErr("operator " + op))
}

func (fx *fnExec) asInt(v TV, e *Expr) string {
	switch x := v.V.(type) {
	case Sc:
		if x.S == SInt {
			return x.T
		}
	case PtrV:
		return x.Addr
	}
	panic(contractErr(fmt.Sprintf("integer operand expected in %s (got %T)", e, v.V)))
}

func (fx *fnExec) evalCall(e *Expr, env *Env) TV {
	g := fx.g
	switch e.Name {
	case "old":
		env2 := *env
		env2.cur = env.old
		return fx.eval(e.Args[0], &env2)
	case "atentry": // atentry(e): e with the loop's header phis (and the heap) as they were when the loop was entered
		if env.entryVals == nil || env.fr == nil {
			panic(contractErr("atentry() outside a loop clause"))
		}
		cur := map[*ssa.Phi]Val{}
		for phi, v := range env.entryVals {
			if old, ok := env.fr.vals[phi]; ok {
				cur[phi] = old
			}
			env.fr.vals[phi] = v
		}
		env2 := *env
		env2.cur = env.entryState
		env2.prevVals = nil
		env2.entryVals = nil
		r := fx.eval(e.Args[0], &env2)
		for phi := range env.entryVals {
			if old, ok := cur[phi]; ok {
				env.fr.vals[phi] = old
			} else {
				delete(env.fr.vals, phi)
			}
		}
		return r
	case "prev":
		if env.prevVals == nil || env.fr == nil {
			panic(contractErr("prev() outside a loop step clause"))
		}
		cur := map[*ssa.Phi]Val{}
		for phi, v := range env.prevVals {
			cur[phi] = env.fr.vals[phi]
			env.fr.vals[phi] = v
		}
		env2 := *env
		env2.cur = env.prevState
		env2.prevVals = nil
		r := fx.eval(e.Args[0], &env2)
		for phi, v := range cur {
			env.fr.vals[phi] = v
		}
		return r
	case "len":
		v := fx.eval(e.Args[0], env)
		switch x := v.V.(type) {
		case StrV:
			if env.qdepth == 0 {
				fx.s.assert(app("<=", "0", x.Len)) // lengths are never negative
			}
			return TV{Sc{x.Len, SInt}, tInt}
		case SliceV:
			if env.qdepth == 0 {
				fx.s.assert(app("<=", "0", x.Len))
			}
			return TV{Sc{x.Len, SInt}, tInt}
		}
		panic(contractErr("len of " + fmt.Sprintf("%T", v.V)))
	case "ite":
		c := fx.evalBool(e.Args[0], env)
		a, b := fx.eval(e.Args[1], env), fx.eval(e.Args[2], env)
		la, lb := g.toLeaves(a.V), g.toLeaves(b.V)
		out := make([]string, len(la))
		for i := range la {
			out[i] = ite(c, la[i], lb[i])
		}
		return TV{g.fromLeaves(a.T, out), a.T}
	case "isSub": // isSub(x, base, lo, hi): x is base[lo:hi] (same backing bytes, by position)
		x := fx.eval(e.Args[0], env).V.(StrV)
		b := fx.eval(e.Args[1], env).V.(StrV)
		lo, hi := fx.evalInt(e.Args[2], env), fx.evalInt(e.Args[3], env)
		return TV{Sc{and(eq(x.Arr, b.Arr), eq(x.Off, add(b.Off, lo)), eq(x.Len, sub(hi, lo))), SBool}, tBool}
	case "fresh": // allocated during the call
		v := fx.eval(e.Args[0], env)
		var a string
		switch x := v.V.(type) {
		case PtrV:
			a = x.Addr
		case IfV:
			a = x.Ref
		default:
			panic(contractErr("fresh of non-reference"))
		}
		return TV{Sc{app(">=", app("birth", a), env.old.now), SBool}, tBool}
	case "implements": // implements(x, "pkg.Iface"): x holds a non-nil pointer to a type of the module that implements the interface
		v := fx.eval(e.Args[0], env).V.(IfV)
		var it types.Type
		for _, sp := range g.spkgs {
			parts := strings.SplitN(e.Args[1].Str, ".", 2)
			if len(parts) == 2 && sp.Pkg.Name() == parts[0] {
				if obj := sp.Pkg.Scope().Lookup(parts[1]); obj != nil {
					it = obj.Type()
				}
			}
		}
		if it == nil {
			panic(contractErr("unknown interface " + e.Args[1].Str))
		}
		var alts []string
		for _, ct := range g.implementers(it) {
			if _, isPtr := ct.(*types.Pointer); isPtr {
				alts = append(alts, eq(v.Tag, num(int64(g.typeTag(ct)))))
			}
		}
		return TV{Sc{and(or(alts...), not(eq(v.Ref, "0"))), SBool}, tBool}
	case "as": // as(x, "*pkg.T"): the pointer held by interface x, viewed as *pkg.T (no check: guard with typeIs)
		v := fx.eval(e.Args[0], env)
		var ref string
		switch x := v.V.(type) {
		case IfV:
			ref = x.Ref
		case PtrV:
			ref = x.Addr
		default:
			panic(contractErr("as() of a non-reference"))
		}
		tn := strings.TrimPrefix(e.Args[1].Str, "*")
		if t := g.namedTypeByName(tn); t != nil {
			return TV{PtrV{Addr: ref, HT: g.heapTypeName(t), Elem: t}, types.NewPointer(t)}
		}
		panic(contractErr("unknown type " + e.Args[1].Str))
	case "freshRef": // references: nil or allocated during the call; other values: true
		v := fx.eval(e.Args[0], env)
		var a string
		switch x := v.V.(type) {
		case PtrV:
			a = x.Addr
		case IfV:
			a = x.Ref
		default:
			return TV{Sc{"true", SBool}, tBool}
		}
		return TV{Sc{or(eq(a, "0"), app(">=", app("birth", a), env.old.now)), SBool}, tBool}
	case "strong": // strong(self) / strong(<function parameter>): the function promises its strong(...) ==> clauses
		n := e.Args[0].Name
		if t, ok := env.strong[n]; ok {
			return TV{Sc{t, SBool}, tBool}
		}
		if n == "self" {
			if fx.c != nil && fx.c.Weak {
				return TV{Sc{"false", SBool}, tBool}
			}
			return TV{Sc{"true", SBool}, tBool}
		}
		if fx.c == nil || fx.c.FParams[n] == "" {
			panic(contractErr("strong(" + n + "): not a function parameter with a schema"))
		}
		return TV{Sc{fx.s.decl("strong!"+n, SBool), SBool}, tBool}
	case "typeIs": // typeIs(x, "*pkg.T")
		v := fx.eval(e.Args[0], env).V.(IfV)
		tn := e.Args[1].Str
		tag, ok := g.tagByName(tn)
		if !ok {
			panic(contractErr("unknown type " + tn))
		}
		return TV{Sc{eq(v.Tag, num(int64(tag))), SBool}, tBool}
	case "fieldNil": // fieldNil(x, "F"): x is an interface holding a node; whatever its type, its pointer field F (if it has one) is nil
		v := fx.eval(e.Args[0], env).V.(IfV)
		fn := e.Args[1].Str
		var cs []string
		for _, ht := range sortedKeys(g.nodeInfos()) {
			ni := g.nodeInfos()[ht]
			for i := 0; i < ni.st.NumFields(); i++ {
				f := ni.st.Field(i)
				if f.Name() != fn {
					continue
				}
				if _, isPtr := f.Type().Underlying().(*types.Pointer); !isPtr {
					continue
				}
				if tag, ok := g.tagByName("*" + ht); ok {
					cs = append(cs, implies(eq(v.Tag, num(int64(tag))), eq(sel(fx.heapLeaf(env.cur, ht+"."+fn, SInt), v.Ref), "0")))
				}
			}
		}
		return TV{Sc{and(cs...), SBool}, tBool}
	case "precOK": // the ghost precedence of a primary expression (no operator node type) is 0
		v := fx.eval(e.Args[0], env)
		defs := fx.g.cs.GhostDefs["prec"]
		switch x := v.V.(type) {
		case PtrV:
			ht := x.HT
			if !fx.g.isExprHeapType(ht) || defs[ht] != nil {
				return TV{Sc{"true", SBool}, tBool}
			}
			return TV{Sc{or(eq(x.Addr, "0"), eq(sel(fx.ghostLeaf(env.cur, ghostPrec, SInt), x.Addr), "0")), SBool}, tBool}
		case IfV:
			if v.T == nil || typeTagName(v.T) != "ast.Expr" {
				return TV{Sc{"true", SBool}, tBool}
			}
			var ops []string
			for _, ht := range sortedKeys(defs) {
				if tag, ok := fx.g.tagByName("*" + ht); ok {
					ops = append(ops, eq(x.Tag, num(int64(tag))))
				}
			}
			return TV{Sc{or(eq(x.Tag, "0"), or(ops...), eq(sel(fx.ghostLeaf(env.cur, ghostPrec, SInt), x.Ref), "0")), SBool}, tBool}
		}
		return TV{Sc{"true", SBool}, tBool}
	case "prec": // ghost printer precedence of an expression node
		v := fx.eval(e.Args[0], env)
		ref, _, _, ok := refOf(v.V)
		if !ok {
			panic(contractErr("prec of a non-reference"))
		}
		return TV{Sc{sel(fx.ghostLeaf(env.cur, ghostPrec, SInt), ref), SInt}, tInt}
	case "$pos", "$end":
		v := fx.eval(e.Args[0], env)
		ref, _, _, ok := refOf(v.V)
		if !ok {
			panic(contractErr(e.Name + " of a non-reference"))
		}
		if e.Name == "$pos" {
			return TV{Sc{fx.gposOf(env.cur, ref), SInt}, tInt}
		}
		return TV{Sc{fx.gendOf(env.cur, ref), SInt}, tInt}
	case "pf", "within", "argsWithin", "pfLocals", "spans":
		if !fx.g.positions {
			return TV{Sc{"true", SBool}, tBool}
		}
		return fx.evalCallPos(e, env)
	case "pf!": // position soundness of a node (nil: true) or of every element of a slice, chained in order
		v := fx.eval(e.Args[0], env)
		return TV{Sc{fx.pfTerm(v, env.cur), SBool}, tBool}
	case "within!": // within(x, lo, hi): x is nil/empty, or lies inside [lo, hi]
		v := fx.eval(e.Args[0], env)
		lo, hi := fx.evalInt(e.Args[1], env), fx.evalInt(e.Args[2], env)
		return TV{Sc{fx.withinTerm(v, env.cur, lo, hi), SBool}, tBool}
	case "spans!": // spans(x, lo, hi): x is nil/empty, or starts exactly at lo and ends exactly at hi
		v := fx.eval(e.Args[0], env)
		lo, hi := fx.evalInt(e.Args[1], env), fx.evalInt(e.Args[2], env)
		return TV{Sc{fx.spansTerm(v, env.cur, lo, hi), SBool}, tBool}
	case "lowerBound": // the earliest position a node built by this call can start at
		cur := *env
		cur.cur = env.old
		lb := fx.evalInt(&Expr{Op: "sel", Name: "Pos", Args: []*Expr{{Op: "sel", Name: "Token", Args: []*Expr{{Op: "sel", Name: "Lexer", Args: []*Expr{{Op: "id", Name: "p"}}}}}}}, &cur)
		for _, name := range sortedKeys(env.vars) {
			if !env.params[name] || name == "recv" || name == "p" {
				continue
			}
			tv := env.vars[name]
			if tv.T == nil {
				continue
			}
			if tv.T.String() == modPath+"/token.Pos" {
				t := tv.V.(Sc).T
				lb = ite(and(app("<=", "0", t), app("<", t, lb)), t, lb)
			} else if tp, _, ok := tokenSpan(tv); ok {
				lb = ite(and(app("<=", "0", tp), app("<", tp, lb)), tp, lb)
			} else if ref, isNil, _, ok := refOf(tv.V); ok && fx.g.isNodeRefType(tv.T) {
				t := fx.gposOf(env.old, ref)
				lb = ite(and(not(isNil), app("<=", "0", t), app("<", t, lb)), t, lb)
			} else if sv, isSl := tv.V.(SliceV); isSl && fx.g.isNodeRefType(sv.Elem) {
				// a list of nodes handed in: it starts where its first element starts
				t := fx.gposOf(env.old, fx.elemRef(sv, "0"))
				lb = ite(and(app(">", sv.Len, "0"), app("<=", "0", t), app("<", t, lb)), t, lb)
			}
		}
		return TV{Sc{fx.s.define("lb", SInt, lb), SInt}, tInt}
	case "argsWithin!": // every position / node handed in lies before the current token and is position-sound
		var cs []string
		tokPos := fx.evalInt(&Expr{Op: "sel", Name: "Pos", Args: []*Expr{{Op: "sel", Name: "Token", Args: []*Expr{{Op: "sel", Name: "Lexer", Args: []*Expr{{Op: "id", Name: "p"}}}}}}}, env)
		for _, name := range sortedKeys(env.vars) {
			if !env.params[name] || name == "recv" || name == "p" {
				continue
			}
			tv := env.vars[name]
			if tv.T == nil {
				continue
			}
			if tv.T.String() == modPath+"/token.Pos" {
				cs = append(cs, app("<=", "0", tv.V.(Sc).T), app("<=", tv.V.(Sc).T, tokPos))
			} else if tp, te, ok := tokenSpan(tv); ok {
				cs = append(cs, app("<=", "0", tp), app("<=", tp, te), app("<=", te, tokPos))
			} else {
				cs = append(cs, fx.pfTerm(tv, env.cur), fx.withinTerm(tv, env.cur, "0", tokPos))
			}
		}
		return TV{Sc{and(cs...), SBool}, tBool}
	case "wfArgs": // every node-typed parameter (or slice of nodes) handed in is well-formed
		var cs []string
		for _, name := range sortedKeys(env.vars) {
			if !env.params[name] || name == "recv" {
				continue
			}
			tv := env.vars[name]
			if tv.T == nil {
				continue
			}
			cs = append(cs, fx.wfTerm(tv, env))
		}
		return TV{Sc{and(cs...), SBool}, tBool}
	case "pfLocals!": // every loop-carried node value (phi of this loop head) is position-sound and lies before the current token
		var cs []string
		if env.fr != nil && env.at != nil {
			tokPos := fx.evalInt(&Expr{Op: "sel", Name: "Pos", Args: []*Expr{{Op: "sel", Name: "Token", Args: []*Expr{{Op: "sel", Name: "Lexer", Args: []*Expr{{Op: "id", Name: "p"}}}}}}}, env)
			lbT := ""
			for _, in := range env.at.Instrs {
				phi, ok := in.(*ssa.Phi)
				if !ok {
					break
				}
				if v, ok := env.fr.vals[phi]; ok {
					if lbT == "" {
						lbT = fx.evalInt(&Expr{Op: "call", Name: "lowerBound"}, env)
					}
					cs = append(cs, fx.pfTerm(TV{v, phi.Type()}, env.cur), fx.withinTerm(TV{v, phi.Type()}, env.cur, lbT, tokPos))
					// what the loop builds starts where the loop started (or where the value it was
					// entered with starts): it lies behind everything parsed before the loop
					if ev, ok := env.entryVals[phi]; ok && env.entryState != nil && os.Getenv("VERIF_NOENTRYBOUND") == "" {
						if lo, ok := fx.entryLower(TV{ev, phi.Type()}, env); ok {
							cs = append(cs, fx.withinTerm(TV{v, phi.Type()}, env.cur, lo, tokPos))
						}
					}
				}
			}
			// named node values defined before the loop lie before the token at which the loop was entered
			if env.entryState != nil && os.Getenv("VERIF_NOENTRYBOUND") == "" {
				entryTok := fx.entryTokPos(env)
				cs = append(cs, app("<=", entryTok, tokPos)) // the token position never moves back inside the loop
				for _, name := range sortedKeys(env.fr.names) {
					for _, val := range env.fr.names[name] {
						in, isInstr := val.(ssa.Instruction)
						if !isInstr || in.Block() == env.at || !in.Block().Dominates(env.at) {
							continue
						}
						// only finished nodes: results of calls (a node allocated here may still be under construction)
						switch cv := val.(type) {
						case *ssa.Call:
						case *ssa.Extract:
							if _, isCall := cv.Tuple.(*ssa.Call); !isCall {
								continue
							}
						default:
							continue
						}
						if li := env.fr.loops[env.at]; li != nil && li.blocks[in.Block()] {
							continue
						}
						v, ok := env.fr.vals[val]
						if !ok {
							continue
						}
						tv := TV{v, val.Type()}
						if _, _, _, isRef := refOf(v); !isRef {
							if _, isSl := v.(SliceV); !isSl {
								continue
							}
						}
						if lbT == "" {
							lbT = fx.evalInt(&Expr{Op: "call", Name: "lowerBound"}, env)
						}
						cs = append(cs, fx.withinTerm(tv, env.cur, lbT, entryTok))
					}
				}
			}
		}
		return TV{Sc{and(cs...), SBool}, tBool}
	case "wfLocals": // every loop-carried node value (phi of this loop head) is well-formed
		var cs []string
		if env.fr != nil && env.at != nil {
			for _, in := range env.at.Instrs {
				phi, ok := in.(*ssa.Phi)
				if !ok {
					break
				}
				if v, ok := env.fr.vals[phi]; ok {
					cs = append(cs, fx.wfTerm(TV{v, phi.Type()}, env))
				}
			}
		}
		return TV{Sc{and(cs...), SBool}, tBool}
	case "wf": // ghost well-formedness of a node reference (true for nil and for non-references)
		v := fx.eval(e.Args[0], env)
		return TV{Sc{fx.wfTerm(v, env), SBool}, tBool}
	case "notNil": // reference results: non-nil and not a typed nil; anything else: true
		v := fx.eval(e.Args[0], env)
		return TV{Sc{notNilTerm(v.V), SBool}, tBool}
	case "isEmpty": // nil reference, typed nil or empty slice; false for anything else
		v := fx.eval(e.Args[0], env)
		switch x := v.V.(type) {
		case SliceV:
			return TV{Sc{eq(x.Len, "0"), SBool}, tBool}
		case IfV, PtrV:
			return TV{Sc{not(notNilTerm(x)), SBool}, tBool}
		}
		return TV{Sc{"false", SBool}, tBool}
	case "isNil":
		v := fx.eval(e.Args[0], env)
		switch x := v.V.(type) {
		case IfV:
			return TV{Sc{eq(x.Tag, "0"), SBool}, tBool}
		case PtrV:
			return TV{Sc{eq(x.Addr, "0"), SBool}, tBool}
		case SliceV:
			return TV{Sc{x.Nil, SBool}, tBool}
		}
	case "ref": // address of a reference as an integer
		v := fx.eval(e.Args[0], env)
		switch x := v.V.(type) {
		case IfV:
			return TV{Sc{x.Ref, SInt}, tInt}
		case PtrV:
			return TV{Sc{x.Addr, SInt}, tInt}
		}
	case "min":
		a, b := fx.evalInt(e.Args[0], env), fx.evalInt(e.Args[1], env)
		return TV{Sc{ite(app("<=", a, b), a, b), SInt}, tInt}
	case "max":
		a, b := fx.evalInt(e.Args[0], env), fx.evalInt(e.Args[1], env)
		return TV{Sc{ite(app(">=", a, b), a, b), SInt}, tInt}
	case "utf8len":
		ln, _ := fx.utf8Funs()
		return TV{Sc{app(ln, fx.evalInt(e.Args[0], env)), SInt}, tInt}
	case "utf8byte":
		_, by := fx.utf8Funs()
		return TV{Sc{app(by, fx.evalInt(e.Args[0], env), fx.evalInt(e.Args[1], env)), SInt}, tInt}
	case "boxedInt": // the integer held by an interface value (boxed at a MakeInterface)
		v := fx.eval(e.Args[0], env).V.(IfV)
		return TV{Sc{app(fx.s.declFun("boxval", []Sort{SInt}, SInt), v.Ref), SInt}, tInt}
	case "isKeywordFold": // the ASCII upper-casing of s is a member of token.Keywords (ground: one disjunct per keyword)
		sv := fx.eval(e.Args[0], env).V.(StrV)
		var alts []string
		for _, kw := range fx.g.keywordSet {
			cs := []string{eq(sv.Len, num(int64(len(kw))))}
			for k := 0; k < len(kw); k++ {
				c := sel(sv.Arr, add(sv.Off, num(int64(k))))
				up := ite(and(app("<=", "97", c), app("<=", c, "122")), sub(c, "32"), c)
				cs = append(cs, eq(up, num(int64(kw[k]))))
			}
			alts = append(alts, and(cs...))
		}
		return TV{Sc{fx.s.define("iskwfold", SBool, or(alts...)), SBool}, tBool}
	case "isKeywordStr":
		s := fx.eval(e.Args[0], env).V.(StrV)
		return TV{Sc{fx.keywordMember(s), SBool}, tBool}
	}
	if strings.HasPrefix(e.Name, "uf_") { // uninterpreted function over integer/bool leaves
		var args []string
		var sorts []Sort
		for _, a := range e.Args {
			v := fx.eval(a, env)
			for i, t := range g.toLeaves(v.V) {
				args = append(args, t)
				sorts = append(sorts, g.leaves(v.T)[i].S)
			}
		}
		res := SBool
		if strings.HasPrefix(e.Name, "uf_int_") {
			res = SInt
		}
		f := fx.s.declFun(e.Name, sorts, res)
		if res == SInt {
			return TV{Sc{app(f, args...), SInt}, tInt}
		}
		return TV{Sc{app(f, args...), SBool}, tBool}
	}
	if e.Name == "reveal" {
		inner := e.Args[0]
		sd, ok := g.cs.Specs[inner.Name]
		if inner.Op != "call" || !ok || !sd.Opaque {
			panic(contractErr("reveal expects an opaque spec application"))
		}
		u := fx.evalBool(inner, env)
		env2 := *env
		env2.vars = map[string]TV{}
		for k, v := range env.vars {
			env2.vars[k] = v
		}
		for i, p := range sd.Params {
			env2.vars[p] = fx.eval(inner.Args[i], env)
		}
		b := fx.evalBool(sd.Body, &env2)
		fx.s.assert(eq(u, b))
		return TV{Sc{"true", SBool}, tBool}
	}
	if e.Name == "callresult" {
		if env.fr == nil {
			panic(contractErr("callresult outside a loop invariant"))
		}
		v, t, ok := env.fr.callResult(e.Args[0].Str, env.at)
		if !ok {
			panic(contractErr("callresult: no unique dominating call to " + e.Args[0].Str))
		}
		return TV{v, t}
	}
	if sd, ok := g.cs.Specs[e.Name]; ok && sd.Opaque {
		if len(sd.Params) != len(e.Args) {
			panic(contractErr("arity of " + e.Name))
		}
		var args []string
		var sorts []Sort
		for _, a := range e.Args {
			v := fx.eval(a, env)
			for i, t := range g.toLeaves(v.V) {
				args = append(args, t)
				sorts = append(sorts, g.leaves(v.T)[i].S)
			}
		}
		f := fx.s.declFun("spec!"+e.Name, sorts, SBool)
		return TV{Sc{app(f, args...), SBool}, tBool}
	}
	if sd, ok := g.cs.Specs[e.Name]; ok {
		if len(sd.Params) != len(e.Args) {
			panic(contractErr("arity of " + e.Name))
		}
		env2 := *env
		env2.vars = map[string]TV{}
		for k, v := range env.vars {
			env2.vars[k] = v
		}
		for i, p := range sd.Params {
			env2.vars[p] = fx.eval(e.Args[i], env)
		}
		return fx.eval(sd.Body, &env2)
	}
	panic(contractErr("unknown function " + e.Name))
}

// ---- modifies locations

type modLoc struct {
	leaf      string
	sort      Sort
	addr      string   // "" = every object
	except    string   // with addr == "": every object that is this one or was allocated during the call
	viaLeaves []string // leaves read to compute addr (for loop-havoc decisions)
}

// modLocs evaluates a modifies path of contract c (of function fn) with the given argument values
// (nil = fn's own parameters) in state st.
func (fx *fnExec) modLocs(fn *ssa.Function, c *Contract, m *Expr, args []Val, st *State) []modLoc {
	return fx.modLocsEnv(fx.calleeEnv(fn, c, args, st, st), m, st)
}

func (fx *fnExec) modLocsEnv(env *Env, m *Expr, st *State) []modLoc {
	g := fx.g
	star := false
	if m.Op == "sel" && m.Name == "*" {
		star = true
		m = m.Args[0]
	}
	// cur(path)[.field...]: the object `path` points to at entry, or any object allocated during the call
	curMode := false
	var curFields []string
	{
		e := m
		var fields []string
		for e.Op == "sel" {
			fields = append([]string{e.Name}, fields...)
			e = e.Args[0]
		}
		if e.Op == "call" && e.Name == "cur" {
			curMode = true
			curFields = fields
			m = e.Args[0]
		}
		if e.Op == "call" && e.Name == "node" {
			// node(x).F: field F of the node that interface x holds, whatever its dynamic type
			v := fx.eval(e.Args[0], env)
			iv, ok := v.V.(IfV)
			if !ok {
				panic(contractErr("modifies: node() expects an interface value"))
			}
			var out []modLoc
			for _, si := range g.nodeStructs() {
				t := types.Type(si.named)
				path := ""
				okPath := true
				for _, f := range fields {
					stt := structOf(t)
					found := false
					for i := 0; stt != nil && i < stt.NumFields(); i++ {
						if stt.Field(i).Name() == f {
							path += "." + f
							t = stt.Field(i).Type()
							found = true
						}
					}
					if !found {
						okPath = false
						break
					}
				}
				if !okPath {
					continue
				}
				ht := g.heapTypeName(si.named)
				for _, l := range g.leaves(t) {
					out = append(out, modLoc{leaf: ht + path + l.Path, sort: l.S, addr: iv.Ref})
					g.leafSorts[ht+path+l.Path] = l.S
				}
			}
			return out
		}
	}
	// m is a path: id(.field)*
	var via []string
	var walk func(e *Expr) TV // returns a pointer TV to the location
	walk = func(e *Expr) TV {
		switch e.Op {
		case "id":
			v, ok := env.vars[e.Name]
			if !ok {
				panic(contractErr("modifies: unknown " + e.Name))
			}
			return v
		case "sel":
			base := walk(e.Args[0])
			// base is either a pointer value or a pointer-to-location
			t := base.T
			pt, isPtr := t.Underlying().(*types.Pointer)
			if !isPtr {
				panic(contractErr("modifies: path through non-pointer " + e.String()))
			}
			p := base.V.(PtrV)
			// if pointee is itself a pointer (location of a pointer field), load it
			cur := TV{p, t}
			if _, pp := pt.Elem().Underlying().(*types.Pointer); pp {
				for _, l := range g.leaves(pt.Elem()) {
					via = append(via, p.HT+p.Path+l.Path)
				}
				cur = TV{fx.load(st, p), pt.Elem()}
			}
			obj, index := lookupField(cur.T, env.pkg, e.Name)
			fld, ok := obj.(*types.Var)
			if !ok || !fld.IsField() {
				panic(contractErr(fmt.Sprintf("modifies: no field %s in %v", e.Name, cur.T)))
			}
			for k, i := range index {
				cp := cur.V.(PtrV)
				stt := structOf(cur.T.Underlying().(*types.Pointer).Elem())
				f := stt.Field(i)
				loc := PtrV{Addr: cp.Addr, HT: cp.HT, Path: cp.Path + "." + f.Name(), Elem: f.Type(), Local: cp.Local}
				cur = TV{loc, types.NewPointer(f.Type())}
				if k < len(index)-1 {
					if _, pp := f.Type().Underlying().(*types.Pointer); pp {
						for _, l := range g.leaves(f.Type()) {
							via = append(via, loc.HT+loc.Path+l.Path)
						}
						cur = TV{fx.load(st, loc), f.Type()}
					}
				}
			}
			return cur
		}
		panic(contractErr("modifies: unsupported path " + e.String()))
	}
	loc := walk(m)
	p := loc.V.(PtrV)
	var out []modLoc
	if curMode {
		// loc is the location of a pointer field; the target object is its current value
		tgt := fx.load(st, p).(PtrV)
		for _, l := range g.leaves(p.Elem) {
			via = append(via, p.HT+p.Path+l.Path)
		}
		path := ""
		elemT := tgt.Elem
		for _, f := range curFields {
			stt := structOf(elemT)
			found := false
			for i := 0; stt != nil && i < stt.NumFields(); i++ {
				if stt.Field(i).Name() == f {
					path += "." + f
					elemT = stt.Field(i).Type()
					found = true
				}
			}
			if !found {
				panic(contractErr("modifies: no field " + f + " under cur(...)"))
			}
		}
		for _, l := range g.leaves(elemT) {
			out = append(out, modLoc{leaf: tgt.HT + path + l.Path, sort: l.S, addr: "", except: tgt.Addr, viaLeaves: via})
			g.leafSorts[tgt.HT+path+l.Path] = l.S
		}
		return out
	}
	elem := p.Elem
	if !star {
		if _, isPtrToPtr := loc.T.Underlying().(*types.Pointer); isPtrToPtr && m.Op == "id" {
			// `modifies x` with x a pointer parameter means *x (all leaves)
		}
	}
	for _, l := range g.leaves(elem) {
		out = append(out, modLoc{leaf: p.HT + p.Path + l.Path, sort: l.S, addr: p.Addr, viaLeaves: via})
		g.leafSorts[p.HT+p.Path+l.Path] = l.S
		if l.Ref {
			g.leafRef[p.HT+p.Path+l.Path] = true
		}
	}
	_ = star
	return out
}

// calleeEnv binds the parameters of fn (by name) to args, for evaluating fn's contract clauses.
func (fx *fnExec) calleeEnv(fn *ssa.Function, c *Contract, args []Val, cur, old *State) *Env {
	env := &Env{fx: fx, vars: map[string]TV{}, cur: cur, old: old}
	if fn.Pkg != nil {
		env.pkg = fn.Pkg.Pkg
	} else if fn.Object() != nil {
		env.pkg = fn.Object().Pkg()
	}
	env.params = map[string]bool{}
	if args == nil {
		for k, v := range fx.penv {
			env.vars[k] = v
			env.params[k] = true
		}
		for k, v := range fx.lets {
			env.vars[k] = v
		}
		return env
	}
	names, typs := paramNames(fn)
	if len(names) != len(args) {
		panic(fmt.Sprintf("calleeEnv %s: %d params vs %d args", fn, len(names), len(args)))
	}
	for i, n := range names {
		if n == "" || n == "_" {
			n = fmt.Sprintf("arg%d", i)
		}
		env.vars[n] = TV{args[i], typs[i]}
		env.params[n] = true
	}
	if fn.Signature.Recv() != nil && len(args) > 0 {
		env.vars["recv"] = TV{args[0], typs[0]}
	}
	// lets of the callee contract (evaluated in its pre-state)
	if c != nil {
		for _, l := range c.Lets {
			penv := *env
			penv.cur = old
			env.vars[l.Name] = fx.eval(l.E, &penv)
		}
	}
	return env
}

func paramNames(fn *ssa.Function) ([]string, []types.Type) {
	var names []string
	var typs []types.Type
	sig := fn.Signature
	if len(fn.Params) > 0 {
		for _, p := range fn.Params {
			names = append(names, p.Name())
			typs = append(typs, p.Type())
		}
		return names, typs
	}
	if sig.Recv() != nil {
		names = append(names, sig.Recv().Name())
		typs = append(typs, sig.Recv().Type())
	}
	for i := 0; i < sig.Params().Len(); i++ {
		names = append(names, sig.Params().At(i).Name())
		typs = append(typs, sig.Params().At(i).Type())
	}
	return names, typs
}

// lookupField resolves a (possibly promoted, possibly unexported) field: contracts may name
// unexported fields of other packages of the module.
func lookupField(t types.Type, pkg *types.Package, name string) (types.Object, []int) {
	obj, index, _ := types.LookupFieldOrMethod(t, true, pkg, name)
	if obj != nil {
		return obj, index
	}
	// breadth-first search over embedded fields, ignoring export rules
	type item struct {
		t    types.Type
		path []int
	}
	queue := []item{{t, nil}}
	for depth := 0; depth < 4 && len(queue) > 0; depth++ {
		var next []item
		for _, it := range queue {
			tt := it.t
			if p, ok := tt.Underlying().(*types.Pointer); ok {
				tt = p.Elem()
			}
			st, ok := tt.Underlying().(*types.Struct)
			if !ok {
				continue
			}
			for i := 0; i < st.NumFields(); i++ {
				f := st.Field(i)
				path := append(append([]int{}, it.path...), i)
				if f.Name() == name {
					return f, path
				}
				if f.Embedded() {
					next = append(next, item{f.Type(), path})
				}
			}
		}
		queue = next
	}
	return nil, nil
}

// callResult finds the value of the unique call to the named function that dominates block at.
func (fr *frame) callResult(name string, at *ssa.BasicBlock) (Val, types.Type, bool) {
	var found ssa.Value
	for _, b := range fr.fn.Blocks {
		if !(b == at || b.Dominates(at)) {
			continue
		}
		for _, in := range b.Instrs {
			c, ok := in.(*ssa.Call)
			if !ok {
				continue
			}
			callee := c.Common().StaticCallee()
			if callee == nil || fr.fx.g.funcName(callee) != name {
				continue
			}
			if found != nil {
				return nil, nil, false
			}
			found = c
		}
	}
	if found == nil {
		return nil, nil, false
	}
	v, ok := fr.vals[found]
	return v, found.Type(), ok
}

// wfTerm: v is nil, or a well-formed node (not a typed nil); for slices of nodes: every element is a
// non-nil well-formed node; true for values that are not node references.
func (fx *fnExec) wfTerm(v TV, env *Env) string {
	switch x := v.V.(type) {
	case TupleV:
		var cs []string
		if tt, ok := v.T.(*types.Tuple); ok {
			for i, e := range x.V {
				cs = append(cs, fx.wfTerm(TV{e, tt.At(i).Type()}, env))
			}
		}
		return and(cs...)
	case SliceV:
		if fx.g.isNodeRefType(x.Elem) {
			return fx.wfAllTerm(env.cur, x)
		}
		return "true"
	}
	ref, isNil, typedNil, ok := refOf(v.V)
	if !ok || !fx.g.isNodeRefType(v.T) {
		return "true"
	}
	return or(isNil, and(not(typedNil), fx.wfOf(env.cur, ref)))
}

func notNilTerm(v Val) string {
	switch x := v.(type) {
	case IfV:
		return and(not(eq(x.Tag, "0")), not(eq(x.Ref, "0")))
	case PtrV:
		return not(eq(x.Addr, "0"))
	case TupleV:
		var cs []string
		for _, e := range x.V {
			cs = append(cs, notNilTerm(e))
		}
		return and(cs...)
	}
	return "true"
}

func (fx *fnExec) pfTerm(v TV, st *State) string {
	switch x := v.V.(type) {
	case TupleV:
		var cs []string
		if tt, ok := v.T.(*types.Tuple); ok {
			for i, e := range x.V {
				cs = append(cs, fx.pfTerm(TV{e, tt.At(i).Type()}, st))
			}
		}
		return and(cs...)
	case SliceV:
		if !fx.g.isNodeRefType(x.Elem) {
			return "true"
		}
		return fx.pfAllTerm(st, x)
	}
	ref, isNil, _, ok := refOf(v.V)
	if !ok || !fx.g.isNodeRefType(v.T) {
		return "true"
	}
	return or(isNil, fx.pfOf(st, ref))
}

func (fx *fnExec) withinTerm(v TV, st *State, lo, hi string) string {
	switch x := v.V.(type) {
	case TupleV:
		var cs []string
		if tt, ok := v.T.(*types.Tuple); ok {
			for i, e := range x.V {
				cs = append(cs, fx.withinTerm(TV{e, tt.At(i).Type()}, st, lo, hi))
			}
		}
		return and(cs...)
	case SliceV:
		if !fx.g.isNodeRefType(x.Elem) {
			return "true"
		}
		first, last := fx.elemRef(x, "0"), fx.elemRef(x, sub(x.Len, "1"))
		return or(eq(x.Len, "0"), and(app("<=", lo, fx.gposOf(st, first)), app("<=", fx.gposOf(st, first), fx.gendOf(st, first)), app("<=", fx.gposOf(st, last), fx.gendOf(st, last)), app("<=", fx.gendOf(st, first), fx.gendOf(st, last)), app("<=", fx.gendOf(st, last), hi)))
	case Sc:
		if v.T != nil && v.T.String() == modPath+"/token.Pos" {
			return or(app("<", x.T, "0"), and(app("<=", lo, x.T), app("<=", x.T, hi)))
		}
		return "true"
	}
	ref, isNil, _, ok := refOf(v.V)
	if !ok || !fx.g.isNodeRefType(v.T) {
		return "true"
	}
	return or(isNil, and(app("<=", lo, fx.gposOf(st, ref)), app("<=", fx.gposOf(st, ref), fx.gendOf(st, ref)), app("<=", fx.gendOf(st, ref), hi)))
}

// entryTokPos: p.Lexer.Token.Pos in the state in which the loop was entered.
func (fx *fnExec) entryTokPos(env *Env) string {
	e2 := *env
	e2.cur = env.entryState
	e2.prevVals = nil
	return fx.evalInt(&Expr{Op: "sel", Name: "Pos", Args: []*Expr{{Op: "sel", Name: "Token", Args: []*Expr{{Op: "sel", Name: "Lexer", Args: []*Expr{{Op: "id", Name: "p"}}}}}}}, &e2)
}

// entryLower: the lower bound of a loop-carried node value: the token position at loop entry when the
// value was nil / empty then, otherwise the start of the value the loop was entered with.
func (fx *fnExec) entryLower(ev TV, env *Env) (string, bool) {
	E := fx.entryTokPos(env)
	switch x := ev.V.(type) {
	case SliceV:
		if !fx.g.isNodeRefType(x.Elem) {
			return "", false
		}
		first := fx.elemRef(x, "0")
		return ite(eq(x.Len, "0"), E, fx.gposOf(env.entryState, first)), true
	}
	ref, isNil, _, ok := refOf(ev.V)
	if !ok || !fx.g.isNodeRefType(ev.T) {
		return "", false
	}
	return ite(isNil, E, fx.gposOf(env.entryState, ref)), true
}

// spansTerm: exact span of a node reference (nil: true), of a node slice (first element starts at lo,
// last ends at hi; empty: true); anything else: true.
func (fx *fnExec) spansTerm(v TV, st *State, lo, hi string) string {
	switch x := v.V.(type) {
	case TupleV:
		return "true"
	case SliceV:
		if !fx.g.isNodeRefType(x.Elem) {
			return "true"
		}
		first, last := fx.elemRef(x, "0"), fx.elemRef(x, sub(x.Len, "1"))
		return or(eq(x.Len, "0"), and(eq(fx.gposOf(st, first), lo), eq(fx.gendOf(st, last), hi)))
	case Sc:
		return "true"
	}
	ref, isNil, _, ok := refOf(v.V)
	if !ok || !fx.g.isNodeRefType(v.T) {
		return "true"
	}
	return or(isNil, and(eq(fx.gposOf(st, ref), lo), eq(fx.gendOf(st, ref), hi)))
}

// tokenSpan: Pos and End of a token.Token passed by value.
func tokenSpan(tv TV) (pos, end string, ok bool) {
	sv, isS := tv.V.(StructV)
	if !isS || tv.T == nil || tv.T.String() != modPath+"/token.Token" {
		return "", "", false
	}
	st := structOf(tv.T)
	for i := 0; i < st.NumFields(); i++ {
		switch st.Field(i).Name() {
		case "Pos":
			pos = sv.F[i].(Sc).T
		case "End":
			end = sv.F[i].(Sc).T
		}
	}
	return pos, end, pos != "" && end != ""
}

// pfAllTerm: every element of a node slice is position-sound, non-empty-or-empty but ordered (pos <= end),
// lies between the start of the first and the end of the last element, and consecutive elements do not overlap.
func (fx *fnExec) pfAllTerm(st *State, x SliceV) string {
	k := sym(fmt.Sprintf("k!q%d", len(fx.s.Items)))
	ek := fx.elemRef(x, k)
	ek1 := fx.elemRef(x, app("+", k, "1"))
	e0 := fx.elemRef(x, "0")
	el := fx.elemRef(x, sub(x.Len, "1"))
	body := and(fx.pfOf(st, ek), app("<=", fx.gposOf(st, ek), fx.gendOf(st, ek)),
		app("<=", fx.gposOf(st, e0), fx.gposOf(st, ek)), app("<=", fx.gendOf(st, ek), fx.gendOf(st, el)),
		implies(app("<", app("+", k, "1"), x.Len), app("<=", fx.gendOf(st, ek), fx.gposOf(st, ek1))))
	fx.s.usesQuant = true
	return fmt.Sprintf("(forall ((%s Int)) (! (=> (and (<= 0 %s) (< %s %s)) %s) :pattern (%s)))", k, k, k, x.Len, body, ek)
}

// evalCallPos dispatches the position builtins (they evaluate to true when the ghost position layer is off).
func (fx *fnExec) evalCallPos(e *Expr, env *Env) TV {
	e2 := *e
	e2.Name = e.Name + "!"
	return fx.evalCall(&e2, env)
}
