package main

// Counterexample replay: a model of a failed obligation gives a concrete input buffer; the property's
// oracle (replay/oracle_test.go.txt) is run on the real code with that input via `go test -overlay`.

import (
	"context"
	"encoding/hex"
	"encoding/json"
	"fmt"
	"os"
	"os/exec"
	"path/filepath"
	"regexp"
	"strconv"
	"strings"
	"time"
)

const replayMaxLen = 48

func init() {
	for _, id := range []string{"C03", "C09", "C12", "C13", "C14", "C20"} {
		concreteReplayers[id] = bufferReplay(id)
	}
}

// modelInput re-queries the failed obligation for a small model and reads the replay string.
func modelInput(s *Session, ob *Oblig) (string, bool) {
	if s == nil || s.ReplayStr == nil {
		return "", false
	}
	rs := s.ReplayStr
	q := s.standalone(ob, false, false)
	// drop the trailing check-sat, add the size bound and the value query
	q = strings.TrimSuffix(strings.TrimSpace(q), "(check-sat)")
	var terms []string
	terms = append(terms, rs.Len)
	for k := 0; k < replayMaxLen; k++ {
		terms = append(terms, sel(rs.Arr, add(rs.Off, num(int64(k)))))
	}
	q += fmt.Sprintf("(assert (<= %s %d))\n(check-sat)\n(get-value (%s))\n", rs.Len, replayMaxLen, strings.Join(terms, " "))
	ctx, cancel := context.WithTimeout(context.Background(), 20*time.Second)
	defer cancel()
	out, _ := runCmd(ctx, q, "z3-new", "-in", "-smt2", "-T:15")
	if !strings.HasPrefix(strings.TrimSpace(out), "sat") {
		return "", false
	}
	// parse the values in order: every value is an integer literal or (- n)
	body := out[strings.Index(out, "sat")+3:]
	re := regexp.MustCompile(`\)\s+(\(- \d+\)|\d+)\)`)
	ms := re.FindAllStringSubmatch(body, -1)
	if len(ms) < 1 {
		return "", false
	}
	vals := make([]int, 0, len(ms))
	for _, m := range ms {
		v := m[1]
		neg := strings.HasPrefix(v, "(-")
		v = strings.Trim(strings.TrimPrefix(v, "(-"), " )")
		n, _ := strconv.Atoi(v)
		if neg {
			n = -n
		}
		vals = append(vals, n)
	}
	n := vals[0]
	if n < 0 || n > replayMaxLen || len(vals) < n+1 {
		return "", false
	}
	b := make([]byte, n)
	for i := 0; i < n; i++ {
		b[i] = byte(vals[i+1])
	}
	return string(b), true
}

var sessionByFunc = map[string]*Session{}

func bufferReplay(id string) func(g *Gen, ob *Oblig) (string, string, bool) {
	return func(g *Gen, ob *Oblig) (string, string, bool) {
		s := sessionByFunc[ob.Func]
		input, ok := modelInput(s, ob)
		if !ok {
			return "", "", false
		}
		report, failed := runOracle(id, input)
		return input, report, failed
	}
}

// runOracle runs the property oracle on the real code. Returns the report and whether the
// property was seen to fail on the input (or an input derived from it).
func runOracle(id, input string) (string, bool) {
	dir, err := os.MkdirTemp("", "verif-replay")
	if err != nil {
		return err.Error(), false
	}
	defer os.RemoveAll(dir)
	ov := map[string]map[string]string{"Replace": {filepath.Join(repoDir(), "zz_verif_replay_test.go"): filepath.Join(verifDir(), "replay", "oracle_test.go.txt")}}
	b, _ := json.Marshal(ov)
	ovPath := filepath.Join(dir, "overlay.json")
	os.WriteFile(ovPath, b, 0o644)
	ctx, cancel := context.WithTimeout(context.Background(), 120*time.Second)
	defer cancel()
	cmd := exec.CommandContext(ctx, "go", "test", "-overlay", ovPath, "-vet=off", "-count=1", "-timeout", "60s", "-run", "^TestVerifReplay$", ".")
	cmd.Dir = repoDir()
	cmd.Env = append(os.Environ(), "GOFLAGS=-mod=mod", "GOPROXY=off", "GOSUMDB=off", "GOTOOLCHAIN=local",
		"VERIF_REPLAY_INPUT="+hex.EncodeToString([]byte(input)), "VERIF_REPLAY_PROP="+id)
	out, _ := cmd.CombinedOutput()
	text := string(out)
	for _, line := range strings.Split(text, "\n") {
		if strings.HasPrefix(line, "REPLAY-FAIL") {
			return line, true
		}
	}
	if strings.Contains(text, "REPLAY-PASS") {
		return "the property oracle passes on the model input and on the inputs derived from it", false
	}
	if strings.Contains(text, "panic: test timed out") {
		return "the real code does not terminate on the model input (test timed out after 60s)", true
	}
	if len(text) > 2000 {
		text = text[:2000]
	}
	return "replay could not be run: " + text, false
}
