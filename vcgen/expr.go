package main

// Mini expression language used in contract clauses.
//
//   e ::= e ==> e | e <==> e | e || e | e && e | !e | e cmp e | e + e | e - e | e * e | e / e | e % e
//       | -e | ident | int | 'c' | "str" | e.f | e[i] | e[i:j] | f(args) | (e)
//       | forall k: e      (binds k:int over the rest of the expression)
//       | exists k: e
//   chained comparison a <= b < c is accepted and means (a <= b && b < c).

import (
	"fmt"
	"strconv"
	"strings"
	"unicode"
)

type Expr struct {
	Op   string  // "id","int","str","call","sel","idx","slice","un","bin","forall","exists"
	Name string  // identifier, operator, field name, function name, bound var
	Int  int64   // literal
	Str  string  // string literal
	Args []*Expr // operands
}

func (e *Expr) String() string {
	switch e.Op {
	case "id":
		return e.Name
	case "int":
		return fmt.Sprint(e.Int)
	case "str":
		return strconv.Quote(e.Str)
	case "call":
		var a []string
		for _, x := range e.Args {
			a = append(a, x.String())
		}
		return e.Name + "(" + strings.Join(a, ", ") + ")"
	case "sel":
		return e.Args[0].String() + "." + e.Name
	case "idx":
		return e.Args[0].String() + "[" + e.Args[1].String() + "]"
	case "slice":
		s := func(x *Expr) string {
			if x == nil {
				return ""
			}
			return x.String()
		}
		return e.Args[0].String() + "[" + s(e.Args[1]) + ":" + s(e.Args[2]) + "]"
	case "un":
		return e.Name + e.Args[0].String()
	case "bin":
		return "(" + e.Args[0].String() + " " + e.Name + " " + e.Args[1].String() + ")"
	case "forall", "exists":
		return "(" + e.Op + " " + e.Name + ": " + e.Args[0].String() + ")"
	}
	return "?"
}

type tok struct {
	k string // "id","int","str","op","eof"
	s string
	i int64
}

type exprParser struct {
	toks []tok
	p    int
	src  string
}

func lexExpr(s string) ([]tok, error) {
	var out []tok
	i := 0
	for i < len(s) {
		c := s[i]
		switch {
		case c == ' ' || c == '\t':
			i++
		case unicode.IsLetter(rune(c)) || c == '_' || c == '$':
			j := i
			for j < len(s) && (unicode.IsLetter(rune(s[j])) || unicode.IsDigit(rune(s[j])) || s[j] == '_' || s[j] == '$') {
				j++
			}
			out = append(out, tok{k: "id", s: s[i:j]})
			i = j
		case c >= '0' && c <= '9':
			j := i
			for j < len(s) && (unicode.IsDigit(rune(s[j])) || unicode.IsLetter(rune(s[j]))) {
				j++
			}
			v, err := strconv.ParseInt(s[i:j], 0, 64)
			if err != nil {
				return nil, fmt.Errorf("bad int %q", s[i:j])
			}
			out = append(out, tok{k: "int", i: v})
			i = j
		case c == '\'':
			j := i + 1
			for j < len(s) && s[j] != '\'' {
				if s[j] == '\\' {
					j++
				}
				j++
			}
			if j >= len(s) {
				return nil, fmt.Errorf("unterminated char literal")
			}
			r, _, _, err := strconv.UnquoteChar(s[i+1:j], '\'')
			if err != nil {
				return nil, fmt.Errorf("bad char literal %q: %v", s[i:j+1], err)
			}
			out = append(out, tok{k: "int", i: int64(r)})
			i = j + 1
		case c == '"' || c == '`':
			j := i + 1
			for j < len(s) && s[j] != c {
				if s[j] == '\\' && c == '"' {
					j++
				}
				j++
			}
			if j >= len(s) {
				return nil, fmt.Errorf("unterminated string literal")
			}
			v, err := strconv.Unquote(s[i : j+1])
			if err != nil {
				return nil, fmt.Errorf("bad string literal %s: %v", s[i:j+1], err)
			}
			out = append(out, tok{k: "str", s: v})
			i = j + 1
		default:
			ops := []string{"<==>", "==>", "&&", "||", "==", "!=", "<=", ">=", "<", ">", "+", "-", "*", "/", "%", "!", "(", ")", "[", "]", ",", ":", "."}
			found := false
			for _, op := range ops {
				if strings.HasPrefix(s[i:], op) {
					out = append(out, tok{k: "op", s: op})
					i += len(op)
					found = true
					break
				}
			}
			if !found {
				return nil, fmt.Errorf("unexpected character %q at %d in %q", c, i, s)
			}
		}
	}
	out = append(out, tok{k: "eof"})
	return out, nil
}

func ParseExpr(s string) (*Expr, error) {
	toks, err := lexExpr(s)
	if err != nil {
		return nil, err
	}
	p := &exprParser{toks: toks, src: s}
	var e *Expr
	func() {
		defer func() {
			if r := recover(); r != nil {
				if pe, ok := r.(parseErr); ok {
					err = fmt.Errorf("%s in %q", string(pe), s)
					return
				}
				panic(r)
			}
		}()
		e = p.parse(0)
		if p.cur().k != "eof" {
			p.fail("trailing tokens")
		}
	}()
	return e, err
}

type parseErr string

func (p *exprParser) fail(m string) { panic(parseErr(fmt.Sprintf("%s at token %d (%v)", m, p.p, p.cur()))) }
func (p *exprParser) cur() tok      { return p.toks[p.p] }
func (p *exprParser) isOp(s string) bool {
	return p.cur().k == "op" && p.cur().s == s
}
func (p *exprParser) expectOp(s string) {
	if !p.isOp(s) {
		p.fail("expected " + s)
	}
	p.p++
}

var binPrec = map[string]int{
	"<==>": 1, "==>": 2, "||": 3, "&&": 4,
	"==": 5, "!=": 5, "<": 5, "<=": 5, ">": 5, ">=": 5,
	"+": 6, "-": 6, "*": 7, "/": 7, "%": 7,
}

func isCmp(op string) bool { return binPrec[op] == 5 }

func (p *exprParser) parse(min int) *Expr {
	if p.cur().k == "id" && (p.cur().s == "forall" || p.cur().s == "exists") && p.toks[p.p+1].k == "id" {
		q := p.cur().s
		p.p++
		name := p.cur().s
		p.p++
		p.expectOp(":")
		body := p.parse(0)
		return &Expr{Op: q, Name: name, Args: []*Expr{body}}
	}
	lhs := p.unary()
	for {
		t := p.cur()
		if t.k != "op" {
			return lhs
		}
		pr, ok := binPrec[t.s]
		if !ok || pr < min {
			return lhs
		}
		p.p++
		var rhs *Expr
		if t.s == "==>" || t.s == "<==>" {
			rhs = p.parse(pr) // right assoc
		} else {
			rhs = p.parse(pr + 1)
		}
		if isCmp(t.s) && lhs.Op == "bin" && isCmp(lhs.Name) && !lhs.paren() {
			// chained comparison
			lhs = &Expr{Op: "bin", Name: "&&", Args: []*Expr{lhs, {Op: "bin", Name: t.s, Args: []*Expr{lhs.Args[1], rhs}}}}
			lhs.Str = "chain"
			continue
		}
		if isCmp(t.s) && lhs.Op == "bin" && lhs.Name == "&&" && lhs.Str == "chain" {
			last := lhs.Args[1]
			lhs = &Expr{Op: "bin", Name: "&&", Str: "chain", Args: []*Expr{lhs, {Op: "bin", Name: t.s, Args: []*Expr{last.Args[1], rhs}}}}
			continue
		}
		lhs = &Expr{Op: "bin", Name: t.s, Args: []*Expr{lhs, rhs}}
	}
}

func (e *Expr) paren() bool { return e.Str == "paren" }

func (p *exprParser) unary() *Expr {
	if p.isOp("!") {
		p.p++
		return &Expr{Op: "un", Name: "!", Args: []*Expr{p.unary()}}
	}
	if p.isOp("-") {
		p.p++
		return &Expr{Op: "un", Name: "-", Args: []*Expr{p.unary()}}
	}
	return p.postfix(p.primary())
}

func (p *exprParser) primary() *Expr {
	t := p.cur()
	switch t.k {
	case "int":
		p.p++
		return &Expr{Op: "int", Int: t.i}
	case "str":
		p.p++
		return &Expr{Op: "str", Str: t.s}
	case "id":
		p.p++
		if p.isOp("(") {
			p.p++
			var args []*Expr
			for !p.isOp(")") {
				args = append(args, p.parse(0))
				if p.isOp(",") {
					p.p++
				} else {
					break
				}
			}
			p.expectOp(")")
			return &Expr{Op: "call", Name: t.s, Args: args}
		}
		return &Expr{Op: "id", Name: t.s}
	case "op":
		if t.s == "(" {
			p.p++
			e := p.parse(0)
			p.expectOp(")")
			if e.Op == "bin" {
				c := *e
				c.Str = "paren"
				return &c
			}
			return e
		}
	}
	p.fail("unexpected token")
	return nil
}

func (p *exprParser) postfix(e *Expr) *Expr {
	for {
		switch {
		case p.isOp("."):
			p.p++
			if p.cur().k != "id" {
				p.fail("expected field name")
			}
			name := p.cur().s
			p.p++
			if p.isOp("(") { // qualified call pkg.f(...)
				p.p++
				var args []*Expr
				for !p.isOp(")") {
					args = append(args, p.parse(0))
					if p.isOp(",") {
						p.p++
					} else {
						break
					}
				}
				p.expectOp(")")
				e = &Expr{Op: "call", Name: e.String() + "." + name, Args: args}
				continue
			}
			e = &Expr{Op: "sel", Name: name, Args: []*Expr{e}}
		case p.isOp("["):
			p.p++
			var lo, hi *Expr
			if !p.isOp(":") {
				lo = p.parse(0)
			}
			if p.isOp(":") {
				p.p++
				if !p.isOp("]") {
					hi = p.parse(0)
				}
				p.expectOp("]")
				e = &Expr{Op: "slice", Args: []*Expr{e, lo, hi}}
			} else {
				p.expectOp("]")
				e = &Expr{Op: "idx", Args: []*Expr{e, lo}}
			}
		default:
			return e
		}
	}
}
