package main

// Ghost well-formedness of AST nodes (C04).
//
// wf is a ghost boolean per node object (heap leaf "ghost.wf", indexed by the node's address). For a node
// of struct type T it abbreviates inv_T:
//   - every field that (*T).SQL() dereferences unconditionally is non-nil (inferred from ast/sql.go:
//     recv.F.SQL(), recv.F.<field>, paren(_, recv.F); fields only passed to sqlOpt/sqlJoin/strOpt are optional),
//   - every non-nil node-typed field is itself wf, and is not a typed nil,
//   - every element of a node-slice field is non-nil and wf.
// The executor keeps ghost.wf[a] equal to inv_T(a) for every node object the function writes
// (recomputed after each field store), and unfolds wf[a] ==> inv_T(a) whenever it reads a field of a node.

import (
	"fmt"
	"go/ast"
	"go/types"
	"sort"
	"strings"
)

const ghostWF = "ghost.wf"

type nodeInfo struct {
	name     string
	named    *types.Named
	st       *types.Struct
	required map[string]bool
	nodeFlds []int // indices of node-typed fields (pointer or interface)
	sliceFlds []int // indices of node-slice fields
}

func (g *Gen) nodeInfos() map[string]*nodeInfo {
	if g.ninfo != nil {
		return g.ninfo
	}
	g.ninfo = map[string]*nodeInfo{}
	for _, si := range g.nodeStructs() {
		ni := &nodeInfo{name: si.name, named: si.named, st: si.st, required: map[string]bool{}}
		for i := 0; i < si.st.NumFields(); i++ {
			f := si.st.Field(i)
			if isNodeType(g, f.Type()) {
				ni.nodeFlds = append(ni.nodeFlds, i)
			} else if sl, ok := f.Type().Underlying().(*types.Slice); ok && isNodeType(g, sl.Elem()) {
				ni.sliceFlds = append(ni.sliceFlds, i)
			}
		}
		g.ninfo[g.heapTypeName(si.named)] = ni
	}
	// required fields from ast/sql.go
	pkg := g.astPackage()
	for _, f := range pkg.Syntax {
		for _, d := range f.Decls {
			fd, ok := d.(*ast.FuncDecl)
			if !ok || fd.Recv == nil || fd.Name.Name != "SQL" || fd.Body == nil || len(fd.Recv.List[0].Names) == 0 {
				continue
			}
			se, ok := fd.Recv.List[0].Type.(*ast.StarExpr)
			if !ok {
				continue
			}
			id, ok := se.X.(*ast.Ident)
			if !ok {
				continue
			}
			ni := g.ninfo["ast."+id.Name]
			if ni == nil {
				continue
			}
			recv := fd.Recv.List[0].Names[0].Name
			isRecvField := func(e ast.Expr) (string, bool) {
				s, ok := e.(*ast.SelectorExpr)
				if !ok {
					return "", false
				}
				x, ok := s.X.(*ast.Ident)
				if !ok || x.Name != recv {
					return "", false
				}
				return s.Sel.Name, true
			}
			ast.Inspect(fd.Body, func(n ast.Node) bool {
				switch x := n.(type) {
				case *ast.SelectorExpr:
					// recv.F.<anything>: F is dereferenced
					if fname, ok := isRecvField(x.X); ok {
						ni.required[fname] = true
					}
				case *ast.CallExpr:
					if fid, ok := x.Fun.(*ast.Ident); ok && fid.Name == "paren" && len(x.Args) == 2 {
						if fname, ok := isRecvField(x.Args[1]); ok {
							ni.required[fname] = true
						}
					}
				}
				return true
			})
			// only node-typed (pointer / interface) fields can be nil
			for fname := range ni.required {
				ok := false
				for _, i := range ni.nodeFlds {
					if ni.st.Field(i).Name() == fname {
						ok = true
					}
				}
				if !ok {
					delete(ni.required, fname)
				}
			}
		}
	}
	return g.ninfo
}

func (ni *nodeInfo) requiredList() []string {
	var out []string
	for f := range ni.required {
		out = append(out, f)
	}
	sort.Strings(out)
	return out
}

func (fx *fnExec) ghostLeaf(st *State, name string, sort Sort) string {
	if fx.ghostUsed == nil {
		fx.ghostUsed = map[string]bool{}
	}
	fx.ghostUsed[name] = true
	return fx.heapLeaf(st, name, sort)
}

func (fx *fnExec) wfOf(st *State, ref string) string {
	return sel(fx.ghostLeaf(st, ghostWF, SBool), ref)
}

// refOf: the address of a reference value (pointer or interface) and its nil-ness / typed-nil-ness.
func refOf(v Val) (ref, isNil, typedNil string, ok bool) {
	switch x := v.(type) {
	case PtrV:
		return x.Addr, eq(x.Addr, "0"), "false", true
	case IfV:
		return x.Ref, eq(x.Tag, "0"), and(not(eq(x.Tag, "0")), eq(x.Ref, "0")), true
	}
	return "", "", "", false
}

// invOf evaluates inv_T for the node object at address a (of heap type ht) in state st.
func (fx *fnExec) invOf(st *State, ht string, a string) (string, bool) {
	ni := fx.g.nodeInfos()[ht]
	if ni == nil {
		return "", false
	}
	var cs []string
	base := PtrV{Addr: a, HT: ht, Elem: ni.named}
	for _, i := range ni.nodeFlds {
		f := ni.st.Field(i)
		v := fx.load(st, PtrV{Addr: a, HT: ht, Path: "." + f.Name(), Elem: f.Type()})
		ref, isNil, typedNil, _ := refOf(v)
		if ni.required[f.Name()] && fx.g.cs.TypeInvs[ht] == nil {
			cs = append(cs, not(isNil))
		}
		cs = append(cs, not(typedNil))
		cs = append(cs, or(isNil, fx.wfOf(st, ref)))
	}
	for _, i := range ni.sliceFlds {
		f := ni.st.Field(i)
		v := fx.load(st, PtrV{Addr: a, HT: ht, Path: "." + f.Name(), Elem: f.Type()}).(SliceV)
		cs = append(cs, fx.wfAllTerm(st, v))
	}
	if inv := fx.g.cs.TypeInvs[ht]; inv != nil {
		env := &Env{fx: fx, vars: map[string]TV{"self": {base, types.NewPointer(ni.named)}}, cur: st, old: st, pkg: fx.g.astPackage().Types}
		cs = append(cs, fx.evalBool(inv, env))
	}
	return and(cs...), true
}

// wfAllTerm: every element of a node slice is non-nil (and not a typed nil) and wf.
func (fx *fnExec) wfAllTerm(st *State, v SliceV) string {
	k := sym(fmt.Sprintf("k!w%d", len(fx.s.Items)))
	terms := make([]string, len(v.Elems))
	for i, e := range v.Elems {
		terms[i] = sel(e, k)
	}
	el := fx.g.fromLeaves(v.Elem, terms)
	ref, isNil, typedNil, ok := refOf(el)
	if !ok {
		return "true"
	}
	body := and(not(isNil), not(typedNil), fx.wfOf(st, ref))
	pat := sel(v.Elems[len(v.Elems)-1], k)
	fx.s.usesQuant = true
	return fmt.Sprintf("(forall ((%s Int)) (! (=> (and (<= 0 %s) (< %s %s)) %s) :pattern (%s)))", k, k, k, v.Len, body, pat)
}

func (g *Gen) isNodeHeapType(ht string) bool {
	_, ok := g.nodeInfos()[ht]
	return ok && strings.HasPrefix(ht, "ast.")
}

// unfoldWF: reading a field of a node whose wf is known gives its invariant.
func (fr *frame) unfoldWF(st *State, p PtrV) {
	fx := fr.fx
	if p.Path != "" || !fx.g.isNodeHeapType(p.HT) {
		return
	}
	key := p.Addr + "@" + fx.stateKey(st, p.HT)
	if fx.unfolded[key] {
		return
	}
	if fx.unfolded == nil {
		fx.unfolded = map[string]bool{}
	}
	fx.unfolded[key] = true
	if inv, ok := fx.invOf(st, p.HT, p.Addr); ok {
		fx.s.assert(implies(and(st.reach, not(eq(p.Addr, "0")), fx.wfOf(st, p.Addr)), inv))
	}
}

// stateKey: a fingerprint of the leaves of heap type ht (and ghost.wf) in st, to avoid repeating unfoldings.
func (fx *fnExec) stateKey(st *State, ht string) string {
	var b strings.Builder
	for _, k := range sortedKeys(st.heap) {
		if strings.HasPrefix(k, ht+".") || strings.HasPrefix(k, "ghost.") {
			b.WriteString(st.heap[k])
			b.WriteByte(';')
		}
	}
	return b.String()
}

// foldWF: after a store into a node object, its ghost wf is its invariant in the new state.
func (fr *frame) foldWF(st *State, ht, addr string) {
	fx := fr.fx
	if !fx.g.isNodeHeapType(ht) {
		return
	}
	inv, ok := fx.invOf(st, ht, addr)
	if !ok {
		return
	}
	arr := fx.ghostLeaf(st, ghostWF, SBool)
	// name the invariant's value: quantifiers must not sit inside array terms
	b := inv
	if strings.Contains(inv, "forall") {
		b = fx.s.fresh("wfval", SBool)
		fx.s.assert(eq(b, inv))
	}
	st.heap[ghostWF] = fx.s.define("G!wf", arrOf(SBool), store(arr, addr, b))
}

// isNodeRefType: pointer to a node struct, a node interface, or a type parameter constrained by one.
func (g *Gen) isNodeRefType(t types.Type) bool {
	if t == nil {
		return false
	}
	if isNodeType(g, t) {
		return true
	}
	if tp, ok := t.(*types.TypeParam); ok {
		if it, ok := tp.Constraint().Underlying().(*types.Interface); ok && g.nodeInterface() != nil {
			_ = it
			return true
		}
	}
	return false
}

// noteNodeRefs records the node references contained in v (of type t).
func (fx *fnExec) noteNodeRefs(v Val, t types.Type) {
	add := func(ref string) {
		if ref == "0" || ref == "" {
			return
		}
		for _, r := range fx.nodeRefs {
			if r == ref {
				return
			}
		}
		fx.nodeRefs = append(fx.nodeRefs, ref)
	}
	switch x := v.(type) {
	case PtrV:
		if fx.g.isNodeRefType(t) || fx.g.isNodeHeapType(x.HT) {
			add(x.Addr)
		}
	case IfV:
		if fx.g.isNodeRefType(t) {
			add(x.Ref)
		}
	case TupleV:
		if tt, ok := t.(*types.Tuple); ok {
			for i, e := range x.V {
				fx.noteNodeRefs(e, tt.At(i).Type())
			}
		}
	}
}

// havocGhost: a callee that may build nodes leaves the ghost state of the nodes that existed before the
// call unchanged (except those it declares to finish: keep lists their addresses).
func (fx *fnExec) havocGhost(st *State, preNow string, touched []string) {
	for _, leaf := range []struct {
		name string
		sort Sort
	}{{ghostWF, SBool}, {ghostPF, SBool}, {ghostPos, SInt}, {ghostEnd, SInt}, {ghostPrec, SInt}} {
		if _, used := st.heap[leaf.name]; !used && !fx.ghostUsed[leaf.name] {
			continue
		}
		old := fx.ghostLeaf(st, leaf.name, leaf.sort)
		nh := fx.s.fresh("Gc!"+leaf.name, arrOf(leaf.sort))
		st.heap[leaf.name] = nh
		x := sym(fmt.Sprintf("x!g%d", len(fx.s.Items)))
		var guard []string
		guard = append(guard, app("<", app("birth", x), preNow))
		for _, t := range touched {
			guard = append(guard, not(eq(x, t)))
		}
		fx.s.assert(fmt.Sprintf("(forall ((%s Int)) (! (=> %s (= (select %s %s) (select %s %s))) :pattern ((select %s %s))))", x, and(guard...), nh, x, old, x, nh, x))
		fx.s.usesQuant = true
	}
}

const (
	ghostPos  = "ghost.pos"
	ghostEnd  = "ghost.end"
	ghostPrec = "ghost.prec"
)

func buildsNodes(c *Contract) bool {
	switch c.FromSchema {
	case "parser", "parsernp", "parseropt", "parsersuffix", "recovering", "handler":
		return true
	}
	return strings.HasPrefix(c.Func, "memefish.parse") || strings.HasPrefix(c.Func, "fparam") || c.BuildsNodes
}

// foldPrec: ghost.prec[a] is the printer precedence of the expression node at a, by the table in the
// contract file (ghostdef prec ...); 0 (primary expression) for every other node type.
func (fr *frame) foldPrec(st *State, ht, addr string) {
	fx := fr.fx
	if !fx.g.isNodeHeapType(ht) {
		return
	}
	ni := fx.g.nodeInfos()[ht]
	val := "0"
	if def := fx.g.cs.GhostDefs["prec"][ht]; def != nil {
		base := PtrV{Addr: addr, HT: ht, Elem: ni.named}
		env := &Env{fx: fx, vars: map[string]TV{"self": {base, types.NewPointer(ni.named)}}, cur: st, old: st, pkg: fx.g.astPackage().Types}
		val = fx.evalInt(def, env)
	} else if !fx.g.isExprHeapType(ht) {
		return // only expressions have a printer precedence
	}
	st.heap[ghostPrec] = fx.s.define("G!prec", arrOf(SInt), store(fx.ghostLeaf(st, ghostPrec, SInt), addr, val))
}

func (g *Gen) isExprHeapType(ht string) bool {
	if g.exprTypes == nil {
		g.exprTypes = map[string]bool{}
		sp := g.spkgs["ast"]
		if sp != nil {
			if obj := sp.Pkg.Scope().Lookup("Expr"); obj != nil {
				it := obj.Type().Underlying().(*types.Interface)
				for name, ni := range g.nodeInfos() {
					if types.Implements(types.NewPointer(ni.named), it) {
						g.exprTypes[name] = true
					}
				}
			}
		}
	}
	return g.exprTypes[ht]
}
