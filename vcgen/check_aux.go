package main

import (
	"fmt"
	"go/ast"
	"go/printer"
	"path/filepath"
	"go/token"
	"go/types"
	"regexp"
	"strconv"
	"strings"

	"golang.org/x/tools/go/ssa"
)

func init() {
	auxEngines["C19"] = func(g *Gen, id, tier string) auxResult {
		obs := append(g.posObligations(), g.walkObligations()...)
		return runCatalog(g, id, obs)
	}
	auxEngines["C17"] = func(g *Gen, id, tier string) auxResult {
		return runCatalog(g, id, append(g.walkObligations(), g.adapterShape()...))
	}
	auxEngines["C04"] = func(g *Gen, id, tier string) auxResult {
		// the adapters belong to C04 too: an iterator that calls yield again after the consumer stopped
		// panics at run time ("range function continued iteration")
		return runCatalog(g, id, append(g.walkObligations(), g.adapterShape()...))
	}
	propertyAssumptions["C19"] = []string{
		"the semantics of the documented position language is my reading of the EBNF in the ast package comment (catalog.go: first valid position for ||, first non-nil node for ??, -1 propagation for +, [0]/[$] nil on empty slices)",
		"the helper functions of ast/pos_util.go and ast/node_wrapper.go behave as their contracts say (posAdd, posChoice, nodeChoice, nodePos/nodeEnd, nodeSliceIndex/Last, ifThenElse, wrapNode)",
		"not covered: byte-for-byte regeneration and the reflection-based interpreter tools/util/poslang (outside the subset)",
	}
	propertyAssumptions["C17"] = []string{
		"the global depth-first theorem (each reachable node once, parents first, siblings in declaration order, Field/Index chain = real path) follows from the per-type push lists and the walkMain step contract by induction on tree height; that induction is on paper",
		"exactly-once assumes the AST is a tree (no sharing)",
	}
}

func runCatalog(g *Gen, id string, all []*catOblig) auxResult {
	var obs []*catOblig
	for _, ob := range all {
		if hasTag(ob.Tags, id) {
			obs = append(obs, ob)
		}
	}
	dischargeCatalog(obs)
	res := auxResult{}
	for _, ob := range obs {
		res.obligations++
		if ob.Result == "unsat" {
			res.discharged++
			if len(res.samples) < 6 {
				res.samples = append(res.samples, fmt.Sprintf("%s: %s -> unsat", ob.Name, ob.Detail))
			}
			continue
		}
		if knownNames[ob.Name] {
			res.obligations--
			fmt.Printf("KNOWN-FINDING: property=%s %s %s\n", id, ob.Name, knownText[ob.Name])
			continue
		}
		res.violations++
		var b strings.Builder
		fmt.Fprintf(&b, "property: %s\nobligation: %s\nlocation: %s:%d\nclause: %s\nresult: %s\n", id, ob.Name, shortFile(ob.Pos.Filename), ob.Pos.Line, ob.Detail, ob.Result)
		if ob.Failed != "" {
			fmt.Fprintf(&b, "reason: %s\n", ob.Failed)
		}
		if ob.Model != "" {
			fmt.Fprintf(&b, "field valuation on which the generated method and the documented expression differ:\n%s\n", ob.Model)
		}
		b.WriteString("no-failing-input-found\n")
		path := writeReplayText(id, sanitize(ob.Name), b.String())
		fmt.Printf("VIOLATION property=%s replay=%s no-failing-input-found\n", id, path)
		fmt.Printf("  obligation %s (%s) at %s:%d: %s %s\n", ob.Name, ob.Result, shortFile(ob.Pos.Filename), ob.Pos.Line, ob.Detail, ob.Failed)
	}
	return res
}

var knownText = map[string]string{}

func init() {
	// C09: ast.BadNode is allocated only by the four recovery handlers (each of which records exactly
	// one error first: proved by their contracts).
	auxEngines["C09"] = func(g *Gen, id, tier string) auxResult {
		res := auxResult{}
		for _, name := range sortedKeys(g.funcs) {
			fn := g.funcs[name]
			if fn.Pkg == nil || fn.Pkg.Pkg.Name() != "memefish" || len(fn.Blocks) == 0 {
				continue
			}
			for _, b := range fn.Blocks {
				for _, in := range b.Instrs {
					al, ok := in.(*ssa.Alloc)
					if !ok {
						continue
					}
					t := al.Type().Underlying().(*types.Pointer).Elem()
					if typeTagName(t) != "ast.BadNode" {
						continue
					}
					res.obligations++
					oname := fmt.Sprintf("%s/badnode-alloc@%s", name, "handler")
					isHandler := func(n string) bool { return strings.Contains(n, ".handleParse") && strings.HasSuffix(n, "Error") }
					if isHandler(name) || (g.cs.Funcs[name] == nil && g.allCallersAre(fn, isHandler, 0)) {
						res.discharged++
						if len(res.samples) < 4 {
							res.samples = append(res.samples, oname+": allocation of ast.BadNode inside a recovery handler -> ok")
						}
						continue
					}
					res.violations++
					pos := g.prog.Fset.Position(al.Pos())
					path := writeReplayText(id, sanitize(oname), fmt.Sprintf("property: %s\nobligation: %s\nast.BadNode is allocated outside the recovery handlers at %s:%d; the error accounting (one recorded error per Bad node) only covers the handlers\nno-failing-input-found\n", id, oname, shortFile(pos.Filename), pos.Line))
					fmt.Printf("VIOLATION property=%s replay=%s no-failing-input-found\n  ast.BadNode allocated in %s at %s:%d\n", id, path, name, shortFile(pos.Filename), pos.Line)
				}
			}
		}
		return res
	}
}

// C18: sources of nondeterminism and shared mutable state, decided structurally over the SSA of every
// function of the module (the SMT side of C18 are the `frame` obligations of every function under
// contract: each store stays inside the function's modifies clause or goes to an object allocated
// during the call).
var pureStdPackages = map[string]bool{"fmt": true, "strings": true, "strconv": true, "unicode": true, "unicode/utf8": true, "bytes": true, "errors": true, "iter": true, "slices": true, "maps": false, "sort": true}

func init() {
	auxEngines["C18"] = func(g *Gen, id, tier string) auxResult {
		res := auxResult{}
		report := func(name, what string, pos token.Position) {
			res.violations++
			oname := name + "/det-sources"
			path := writeReplayText(id, sanitize(oname), fmt.Sprintf("property: %s\nobligation: %s\n%s at %s:%d\nno-failing-input-found\n", id, oname, what, shortFile(pos.Filename), pos.Line))
			fmt.Printf("VIOLATION property=%s replay=%s no-failing-input-found\n  %s: %s at %s:%d\n", id, path, name, what, shortFile(pos.Filename), pos.Line)
		}
		for _, name := range sortedKeys(g.funcs) {
			fn := g.funcs[name]
			if fn.Pkg == nil || !strings.HasPrefix(fn.Pkg.Pkg.Path(), modPath) || strings.Contains(fn.Pkg.Pkg.Path(), "/tools") || len(fn.Blocks) == 0 {
				continue
			}
			isInit := fn.Name() == "init" || strings.HasPrefix(fn.Name(), "init#")
			res.obligations++
			bad := 0
			for _, b := range fn.Blocks {
				for _, in := range b.Instrs {
					pos := g.prog.Fset.Position(in.Pos())
					switch x := in.(type) {
					case *ssa.Go:
						report(name, "starts a goroutine", pos)
						bad++
					case *ssa.Select, *ssa.Send, *ssa.MakeChan:
						report(name, "uses channels", pos)
						bad++
					case *ssa.UnOp:
						if x.Op == token.ARROW {
							report(name, "receives from a channel", pos)
							bad++
						}
					case *ssa.Range:
						if _, isMap := x.X.Type().Underlying().(*types.Map); isMap {
							report(name, "iterates over a map (order is not deterministic)", pos)
							bad++
						}
					case *ssa.MapUpdate:
						if !isInit {
							if root := addrRootVal(x.Map); root != nil {
								if _, isG := root.(*ssa.Global); isG {
									report(name, "writes a package-level map outside init", pos)
									bad++
								}
							}
						}
					case *ssa.Store:
						if !isInit {
							if _, isG := addrRoot(x.Addr).(*ssa.Global); isG {
								report(name, "writes a package-level variable outside init", pos)
								bad++
							}
						}
					case ssa.CallInstruction:
						if callee := x.Common().StaticCallee(); callee != nil && callee.Pkg != nil {
							pp := callee.Pkg.Pkg.Path()
							if !strings.HasPrefix(pp, modPath) && !pureStdPackages[pp] {
								report(name, "calls "+callee.String()+" (package "+pp+" is not on the list of pure library packages)", pos)
								bad++
							}
						}
					}
				}
			}
			if bad == 0 {
				res.discharged++
				if len(res.samples) < 3 {
					res.samples = append(res.samples, name+"/det-sources: no goroutine, channel, map iteration, global write or impure library call -> ok")
				}
			}
		}
		return res
	}
	propertyAssumptions["C18"] = []string{
		"functions that write only memory allocated during the call or reachable from their receiver/arguments as listed in their modifies clause, and read only their arguments and package-level values that nothing writes after init, are deterministic functions of their arguments; two calls on distinct Parser values have disjoint write footprints, hence no data race under any schedule: this meta-argument is stated, not mechanised; no schedule is explored and the race detector is not run",
		"package-level variables are written only by init functions (checked structurally); their values are modelled as constants",
		"the standard-library packages fmt, strings, strconv, unicode, unicode/utf8, bytes, errors, sort are deterministic and keep no state that the called functions mutate",
	}
}

func addrRootVal(v ssa.Value) ssa.Value {
	for {
		switch x := v.(type) {
		case *ssa.UnOp:
			v = x.X
		case *ssa.FieldAddr:
			v = x.X
		case *ssa.IndexAddr:
			v = x.X
		default:
			return v
		}
	}
}

func init() {
	// C07: operator nodes are built only by the precedence-level productions (whose contracts bound the
	// precedence of the operands), so every operator node of a parser-built tree is parenfree.
	auxEngines["C07"] = func(g *Gen, id, tier string) auxResult {
		res := auxResult{}
		defs := g.cs.GhostDefs["prec"]
		for _, name := range sortedKeys(g.funcs) {
			fn := g.funcs[name]
			if fn.Pkg == nil || fn.Pkg.Pkg.Name() != "memefish" || len(fn.Blocks) == 0 {
				continue
			}
			for _, b := range fn.Blocks {
				for _, in := range b.Instrs {
					al, ok := in.(*ssa.Alloc)
					if !ok {
						continue
					}
					t := al.Type().Underlying().(*types.Pointer).Elem()
					if defs[typeTagName(t)] == nil {
						continue
					}
					res.obligations++
					c := g.cs.Funcs[name]
					hasLevel := false
					if c != nil {
						for _, e := range c.Ensures {
							if e.Label == "level" && hasTag(c.tagsFor(e), "C07") {
								hasLevel = true
							}
						}
					}
					oname := fmt.Sprintf("%s/operator-alloc:%s", name, typeTagName(t))
					if !hasLevel && g.inlined[name] && g.callersHaveLevel(fn, 0) {
						// a helper verified as part of its callers, all of which carry a level contract
						hasLevel = true
					}
					if hasLevel {
						res.discharged++
						if len(res.samples) < 4 {
							res.samples = append(res.samples, oname+": built inside a production with a precedence-level contract -> ok")
						}
						continue
					}
					res.violations++
					pos := g.prog.Fset.Position(al.Pos())
					path := writeReplayText(id, sanitize(oname), fmt.Sprintf("property: %s\nobligation: %s\nan operator node (%s) is built at %s:%d in a function without a precedence-level contract: nothing bounds the precedence of its operands\nno-failing-input-found\n", id, oname, typeTagName(t), shortFile(pos.Filename), pos.Line))
					fmt.Printf("VIOLATION property=%s replay=%s no-failing-input-found\n  %s at %s:%d\n", id, path, oname, shortFile(pos.Filename), pos.Line)
				}
			}
		}
		r2 := runCatalog(g, id, g.printerShape())
		res.obligations += r2.obligations
		res.discharged += r2.discharged
		res.violations += r2.violations
		res.samples = append(res.samples, r2.samples...)
		return res
	}
	propertyAssumptions["C07"] = []string{
		"the precedence table (binPrec / unPrec and the node kinds at the selector, comparison levels) in ast/verif_contracts.go transcribes the GoogleSQL operator-precedence table; it is the reviewable trusted spec of this property",
		"operator nodes are not modified after they are built, except the sign folding of number literals in parseUnary (which builds no operator node)",
		"printer side: exprPrec is verified on the real switch; that the nine operator SQL() methods print their operands only through paren(exprPrec(recv), operand) and contain no parenthesis literal is a structural check of ast/sql.go, not an SMT obligation; the exact `left op right` text is not verified",
	}
}

// printerShape: in ast/sql.go, the SQL() method of every operator node type prints each Expr-typed
// operand only as paren(p, recv.F) with p := exprPrec(recv), and contains no parenthesis literal of
// its own: paren() is the only source of parentheses around operands (C07, printer side).
func (g *Gen) printerShape() []*catOblig {
	var obs []*catOblig
	pkg := g.astPackage()
	defs := g.cs.GhostDefs["prec"]
	exprIface := pkg.Types.Scope().Lookup("Expr").Type().Underlying().(*types.Interface)
	for _, f := range pkg.Syntax {
		for _, d := range f.Decls {
			fd, ok := d.(*ast.FuncDecl)
			if !ok || fd.Recv == nil || fd.Name.Name != "SQL" || fd.Body == nil || len(fd.Recv.List[0].Names) == 0 {
				continue
			}
			se, ok := fd.Recv.List[0].Type.(*ast.StarExpr)
			if !ok {
				continue
			}
			id, ok := se.X.(*ast.Ident)
			if !ok || defs["ast."+id.Name] == nil {
				continue
			}
			ni := g.nodeInfos()["ast."+id.Name]
			recv := fd.Recv.List[0].Names[0].Name
			ob := &catOblig{Name: "ast.(*" + id.Name + ").SQL/printer-shape", Tags: []string{"C07"}, Pos: g.prog.Fset.Position(fd.Pos()), Result: "unsat"}
			obs = append(obs, ob)
			exprFields := map[string]bool{}
			for i := 0; i < ni.st.NumFields(); i++ {
				if _, isIface := ni.st.Field(i).Type().Underlying().(*types.Interface); isIface && types.Implements(ni.st.Field(i).Type(), exprIface) {
					exprFields[ni.st.Field(i).Name()] = true
				}
			}
			var problems []string
			parenArgs := map[ast.Expr]bool{}
			ast.Inspect(fd.Body, func(n ast.Node) bool {
				switch x := n.(type) {
				case *ast.CallExpr:
					if fid, ok := x.Fun.(*ast.Ident); ok && fid.Name == "paren" && len(x.Args) == 2 {
						if pid, ok := x.Args[0].(*ast.Ident); !ok || pid.Name != "p" {
							problems = append(problems, "paren() is not called with p")
						}
						parenArgs[x.Args[1]] = true
					}
				case *ast.AssignStmt:
					if len(x.Lhs) == 1 && fmt.Sprint(x.Lhs[0]) == "p" {
						if call, ok := x.Rhs[0].(*ast.CallExpr); !ok || fmt.Sprint(call.Fun) != "exprPrec" || len(call.Args) != 1 || fmt.Sprint(call.Args[0]) != recv {
							problems = append(problems, "p is not exprPrec("+recv+")")
						}
					}
				case *ast.BasicLit:
					if x.Kind == token.STRING && (strings.Contains(x.Value, "(") || strings.Contains(x.Value, ")")) {
						problems = append(problems, "string literal "+x.Value+" contains a parenthesis")
					}
				case *ast.SelectorExpr:
					if xid, ok := x.X.(*ast.Ident); ok && xid.Name == recv && exprFields[x.Sel.Name] && !parenArgs[x] {
						problems = append(problems, "operand "+recv+"."+x.Sel.Name+" is used outside paren(p, ...)")
					}
				}
				return true
			})
			ob.Detail = fmt.Sprintf("operands %v printed through paren(p, .) only", sortedKeys(exprFields))
			if len(problems) > 0 {
				ob.Failed = strings.Join(problems, "; ")
				ob.Result = "sat"
			}
		}
	}
	return obs
}

// callersHaveLevel: every function of the module that calls fn statically has a [C07] level clause
// (or is itself verified inlined into callers that have one).
func (g *Gen) callersHaveLevel(fn *ssa.Function, depth int) bool {
	if depth > 3 {
		return false
	}
	found := false
	for _, name := range sortedKeys(g.funcs) {
		caller := g.funcs[name]
		if caller == fn || len(caller.Blocks) == 0 {
			continue
		}
		calls := false
		for _, b := range caller.Blocks {
			for _, in := range b.Instrs {
				if ci, ok := in.(ssa.CallInstruction); ok && ci.Common().StaticCallee() == fn {
					calls = true
				}
			}
		}
		if !calls {
			continue
		}
		found = true
		ok := false
		if c := g.cs.Funcs[name]; c != nil && !g.inlined[name] {
			for _, e := range c.Ensures {
				if e.Label == "level" && hasTag(c.tagsFor(e), "C07") {
					ok = true
				}
			}
		}
		if !ok && g.inlined[name] && g.callersHaveLevel(caller, depth+1) {
			ok = true
		}
		if !ok {
			return false
		}
	}
	return found
}

// sqlBoundary (C06, clause (b), printer side): a node whose range starts at a keyword or punctuation
// field (`pos = F`, field F documented as `position of "T"`) must print text that starts with T, and a
// node whose range ends at such a field (`end = F + len(T)`) must print text that ends with T - otherwise
// replacing input[Pos:End] by SQL() cannot re-parse to the same tree. Decided structurally on the
// return expression of (*T).SQL() in ast/sql.go: only where its first / last operand is a string
// literal; other shapes produce no obligation.
func (g *Gen) sqlBoundary() []*catOblig {
	var obs []*catOblig
	pkg := g.astPackage()
	reTok := regexp.MustCompile("position of (?:the )?[\"`]([^\"`]+)[\"`]")
	reQuoted := regexp.MustCompile("[\"`]([^\"`]+)[\"`]")
	// field comments: struct name -> field name -> token text
	tokOf := map[string]map[string]string{}
	for _, f := range pkg.Syntax {
		for _, d := range f.Decls {
			gd, ok := d.(*ast.GenDecl)
			if !ok {
				continue
			}
			for _, sp := range gd.Specs {
				ts, ok := sp.(*ast.TypeSpec)
				if !ok {
					continue
				}
				st, ok := ts.Type.(*ast.StructType)
				if !ok {
					continue
				}
				for _, fl := range st.Fields.List {
					if fl.Comment == nil {
						continue
					}
					txt := fl.Comment.Text()
					if !reTok.MatchString(txt) {
						continue
					}
					// `Lparen, Rparen token.Pos // position of "(" and ")"`: one quoted token per name, in order
					toks := reQuoted.FindAllStringSubmatch(txt, -1)
					if len(toks) != len(fl.Names) {
						continue
					}
					for k, n := range fl.Names {
						if tokOf[ts.Name.Name] == nil {
							tokOf[ts.Name.Name] = map[string]string{}
						}
						tokOf[ts.Name.Name][n.Name] = toks[k][1]
					}
				}
			}
		}
	}
	// SQL() return expressions
	rets := map[string]ast.Expr{}
	poss := map[string]token.Position{}
	for _, f := range pkg.Syntax {
		for _, d := range f.Decls {
			fd, ok := d.(*ast.FuncDecl)
			if !ok || fd.Recv == nil || fd.Name.Name != "SQL" || fd.Body == nil || len(fd.Body.List) != 1 {
				continue
			}
			rs, ok := fd.Body.List[0].(*ast.ReturnStmt)
			if !ok || len(rs.Results) != 1 {
				continue
			}
			if se, ok := fd.Recv.List[0].Type.(*ast.StarExpr); ok {
				if id, ok := se.X.(*ast.Ident); ok {
					rets[id.Name] = rs.Results[0]
					poss[id.Name] = g.prog.Fset.Position(fd.Pos())
				}
			}
		}
	}
	var edge func(e ast.Expr, first bool) (string, bool)
	edge = func(e ast.Expr, first bool) (string, bool) {
		switch x := e.(type) {
		case *ast.ParenExpr:
			return edge(x.X, first)
		case *ast.BinaryExpr:
			if x.Op != token.ADD {
				return "", false
			}
			if first {
				return edge(x.X, true)
			}
			return edge(x.Y, false)
		case *ast.BasicLit:
			if x.Kind == token.STRING {
				if s, err := strconv.Unquote(x.Value); err == nil {
					return s, true
				}
			}
		case *ast.CallExpr:
			// recv.Field.SQL(): the text of a child comes first / last although the range is bounded
			// by a token of the node itself
			if sel, ok := x.Fun.(*ast.SelectorExpr); ok && sel.Sel.Name == "SQL" && len(x.Args) == 0 {
				if inner, ok := sel.X.(*ast.SelectorExpr); ok {
					if _, ok := inner.X.(*ast.Ident); ok {
						return "\x00child:" + inner.Sel.Name, true
					}
				}
			}
		}
		return "", false
	}
	reField := regexp.MustCompile(`^[A-Za-z_][A-Za-z0-9_]*$`)
	reEnd := regexp.MustCompile(`^([A-Za-z_][A-Za-z0-9_]*)\s*\+\s*(\d+)$`)
	for _, si := range g.nodeStructs() {
		ret := rets[si.name]
		if ret == nil {
			continue
		}
		if reField.MatchString(si.docPos) {
			if tok := tokOf[si.name][si.docPos]; tok != "" {
				if lit, ok := edge(ret, true); ok {
					what := fmt.Sprintf("the literal %q", lit)
					if strings.HasPrefix(lit, "\x00child:") {
						what = "the text of the child " + strings.TrimPrefix(lit, "\x00child:")
					}
					ob := &catOblig{Name: fmt.Sprintf("ast.(*%s).SQL/starts-with-own-first-token", si.name), Tags: []string{"C06"}, Pos: poss[si.name],
						Detail: fmt.Sprintf("pos = %s (position of %q): SQL() must start with %q; it starts with %s", si.docPos, tok, tok, what)}
					if strings.HasPrefix(strings.ToUpper(strings.TrimLeft(lit, " ")), strings.ToUpper(tok)) {
						ob.Result = "unsat"
					} else {
						ob.Failed = "the text printed for the node does not start with the token its range starts at"
					}
					obs = append(obs, ob)
				}
			}
		}
		if m := reEnd.FindStringSubmatch(si.docEnd); m != nil {
			if tok := tokOf[si.name][m[1]]; tok != "" && fmt.Sprint(len(tok)) == m[2] {
				if lit, ok := edge(ret, false); ok {
					what := fmt.Sprintf("the literal %q", lit)
					if strings.HasPrefix(lit, "\x00child:") {
						what = "the text of the child " + strings.TrimPrefix(lit, "\x00child:")
					}
					ob := &catOblig{Name: fmt.Sprintf("ast.(*%s).SQL/ends-with-own-last-token", si.name), Tags: []string{"C06"}, Pos: poss[si.name],
						Detail: fmt.Sprintf("end = %s (position of %q): SQL() must end with %q; it ends with %s", si.docEnd, tok, tok, what)}
					if strings.HasSuffix(strings.ToUpper(strings.TrimRight(lit, " ")), strings.ToUpper(tok)) {
						ob.Result = "unsat"
					} else {
						ob.Failed = "the text printed for the node does not end with the token its range ends at"
					}
					obs = append(obs, ob)
				}
			}
		}
	}
	return obs
}

func init() {
	auxEngines["C06"] = func(g *Gen, id, tier string) auxResult {
		return runCatalog(g, id, g.sqlBoundary())
	}
	propertyAssumptions["C06"] = []string{
		"clause (b) is covered only at the boundary: for nodes whose range starts / ends at a documented keyword or punctuation field and whose SQL() is a concatenation starting / ending with a string literal, that literal is that token (structural check of ast/sql.go); nothing is proved about the text in between",
	}
}

// allCallersAre: fn (a helper without a contract, executed inside its callers) is called, statically,
// only by functions that satisfy pred, or by contract-less helpers of which the same holds.
func (g *Gen) allCallersAre(fn *ssa.Function, pred func(string) bool, depth int) bool {
	if depth > 3 {
		return false
	}
	found := false
	for _, sp := range g.spkgs {
		for _, m := range sp.Members {
			var cands []*ssa.Function
			switch x := m.(type) {
			case *ssa.Function:
				cands = append(cands, x)
			case *ssa.Type:
				for _, t := range []types.Type{x.Type(), types.NewPointer(x.Type())} {
					ms := g.prog.MethodSets.MethodSet(t)
					for i := 0; i < ms.Len(); i++ {
						if f := g.prog.MethodValue(ms.At(i)); f != nil {
							cands = append(cands, f)
						}
					}
				}
			}
			for _, caller := range cands {
				if caller == fn || len(caller.Blocks) == 0 || caller.Synthetic != "" {
					continue
				}
				calls := false
				var scan func(f *ssa.Function)
				scan = func(f *ssa.Function) {
					for _, b := range f.Blocks {
						for _, in := range b.Instrs {
							if ci, ok := in.(ssa.CallInstruction); ok && ci.Common().StaticCallee() == fn {
								calls = true
							}
							for _, op := range in.Operands(nil) {
								if op != nil && *op == ssa.Value(fn) {
									if ci, ok := in.(ssa.CallInstruction); !ok || ci.Common().Value != ssa.Value(fn) {
										calls = true // used as a value: treat as a use by this function
									}
								}
							}
						}
					}
					for _, af := range f.AnonFuncs {
						scan(af)
					}
				}
				scan(caller)
				if !calls {
					continue
				}
				found = true
				cname := g.funcName(caller)
				if pred(cname) {
					continue
				}
				if g.cs.Funcs[cname] == nil && g.allCallersAre(caller, pred, depth+1) {
					continue
				}
				return false
			}
		}
	}
	return found
}

// adapterShape (C17, adapters of ast/walk.go): structural obligations, decided on the syntax tree.
//   inspector.Visit returns the receiver exactly when f(node) is true and nil otherwise;
//   inspector.VisitMany / Field / Index return the receiver (the same callback for the whole subtree);
//   Inspect / InspectMany hand inspector(f) to Walk / WalkMany;
//   Preorder / PreorderMany keep a sticky flag: the callback computes `ok = ok && yield(n)` (yield is not
//   evaluated once ok is false) and returns ok, so nothing is visited after the consumer stopped.
func (g *Gen) adapterShape() []*catOblig {
	pkg := g.astPackage()
	var obs []*catOblig
	src := func(n ast.Node) string {
		var b strings.Builder
		printer.Fprint(&b, g.prog.Fset, n)
		return strings.Join(strings.Fields(b.String()), " ")
	}
	funcs := map[string]*ast.FuncDecl{}
	for _, f := range pkg.Syntax {
		if filepath.Base(g.prog.Fset.Position(f.Pos()).Filename) != "walk.go" {
			continue
		}
		for _, d := range f.Decls {
			if fd, ok := d.(*ast.FuncDecl); ok && fd.Body != nil {
				name := fd.Name.Name
				if fd.Recv != nil && len(fd.Recv.List) == 1 {
					name = src(fd.Recv.List[0].Type) + "." + name
				}
				funcs[name] = fd
			}
		}
	}
	add := func(name, want string, ok bool, got string) {
		ob := &catOblig{Name: "ast." + name + "/adapter-shape", Tags: []string{"C17", "C04"}, Detail: want}
		if fd := funcs[name]; fd != nil {
			ob.Pos = g.prog.Fset.Position(fd.Pos())
		}
		if ok {
			ob.Result = "unsat"
		} else {
			ob.Failed = "body is: " + got
		}
		obs = append(obs, ob)
	}
	body := func(name string) string {
		if fd := funcs[name]; fd != nil {
			return src(fd.Body)
		}
		return "<missing>"
	}
	recvName := func(name string) string {
		if fd := funcs[name]; fd != nil && fd.Recv != nil && len(fd.Recv.List[0].Names) == 1 {
			return fd.Recv.List[0].Names[0].Name
		}
		return "?"
	}
	// inspector.Visit
	{
		r := recvName("inspector.Visit")
		b := body("inspector.Visit")
		p := "node"
		if fd := funcs["inspector.Visit"]; fd != nil && len(fd.Type.Params.List) == 1 && len(fd.Type.Params.List[0].Names) == 1 {
			p = fd.Type.Params.List[0].Names[0].Name
		}
		want := fmt.Sprintf("{ if %s(%s) { return %s } return nil }", r, p, r)
		add("inspector.Visit", "Visit returns the receiver iff f(node), nil otherwise: "+want, b == want, b)
	}
	for _, m := range []string{"inspector.VisitMany", "inspector.Field", "inspector.Index"} {
		r := recvName(m)
		b := body(m)
		want := fmt.Sprintf("{ return %s }", r)
		add(m, "returns the receiver: "+want, b == want, b)
	}
	{
		b := body("Inspect")
		add("Inspect", "Inspect(node, f) is Walk(node, inspector(f))", b == "{ Walk(node, inspector(f)) }", b)
		b = body("InspectMany")
		add("InspectMany", "InspectMany(nodes, f) is WalkMany(nodes, inspector(f))", b == "{ WalkMany(nodes, inspector(f)) }", b)
	}
	for _, m := range []struct{ name, call, arg string }{{"Preorder", "Inspect", "node"}, {"PreorderMany", "InspectMany", "nodes"}} {
		b := body(m.name)
		// the names of the locals are the function's own (a renaming is not a change of shape)
		yieldN, okN, nN, argN := "yield", "ok", "n", m.arg
		if fd := funcs[m.name]; fd != nil {
			if len(fd.Type.Params.List) == 1 && len(fd.Type.Params.List[0].Names) == 1 {
				argN = fd.Type.Params.List[0].Names[0].Name
			}
			depth := 0
			ast.Inspect(fd.Body, func(x ast.Node) bool {
				switch y := x.(type) {
				case *ast.FuncLit:
					if len(y.Type.Params.List) == 1 && len(y.Type.Params.List[0].Names) == 1 {
						if depth == 0 {
							yieldN = y.Type.Params.List[0].Names[0].Name
						} else if depth == 1 {
							nN = y.Type.Params.List[0].Names[0].Name
						}
					}
					depth++
				case *ast.AssignStmt:
					if y.Tok == token.DEFINE && len(y.Lhs) == 1 {
						if id, ok := y.Lhs[0].(*ast.Ident); ok && okN == "ok" {
							okN = id.Name
						}
					}
				}
				return true
			})
		}
		want := fmt.Sprintf("{ return func(%s func(Node) bool) { %s := true %s(%s, func(%s Node) bool { %s = %s && %s(%s) return %s }) } }", yieldN, okN, m.call, argN, nN, okN, okN, yieldN, nN, okN)
		add(m.name, "sticky stop flag: "+want, b == want, b)
	}
	return obs
}
