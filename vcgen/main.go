package main

import (
	"flag"
	"fmt"
	"os"
	"regexp"
	"sort"
	"strings"
	"sync"
	"time"
)

func main() {
	if len(os.Args) < 2 {
		fmt.Fprintln(os.Stderr, "usage: vcgen verify|check|dump ...")
		os.Exit(2)
	}
	switch os.Args[1] {
	case "verify":
		cmdVerify(os.Args[2:])
	case "check":
		os.Exit(cmdCheck(os.Args[2:]))
	case "sigs":
		os.Exit(cmdSigs())
	default:
		fmt.Fprintln(os.Stderr, "unknown command", os.Args[1])
		os.Exit(2)
	}
}

func repoDir() string {
	if d := os.Getenv("VERIF_REPO"); d != "" {
		return d
	}
	return "/repo"
}

// verifyAll runs the generator and the solvers on the selected contracts.
func verifyAll(g *Gen, sel func(*Contract) bool, want func(*Oblig) bool, cfg SolverCfg) []*Session {
	var cs []*Contract
	for _, n := range sortedKeys(g.cs.Funcs) {
		c := g.cs.Funcs[n]
		if sel == nil || sel(c) {
			cs = append(cs, c)
		}
	}
	sessions := make([]*Session, len(cs))
	// generation is sequential (shared Gen state), solving parallel
	tg := time.Now()
	for i, c := range cs {
		sessions[i] = g.Verify(c)
	}
	if os.Getenv("VERIF_DEBUG") != "" {
		fmt.Fprintf(os.Stderr, "generation: %.1fs\n", time.Since(tg).Seconds())
	}
	var wg sync.WaitGroup
	for _, s := range sessions {
		wg.Add(1)
		go func(s *Session) {
			defer wg.Done()
			Discharge(s, want, cfg)
		}(s)
	}
	wg.Wait()
	return sessions
}

func cmdVerify(args []string) {
	fs := flag.NewFlagSet("verify", flag.ExitOnError)
	pat := fs.String("f", "", "regexp on function names")
	verbose := fs.Bool("v", false, "print every obligation")
	dump := fs.String("dump", "", "write the SMT script of matching functions to this directory")
	timeout := fs.Int("t", 10000, "per-obligation timeout (ms)")
	query := fs.String("q", "", "write the standalone query of obligations whose name contains this to /tmp/q_<n>.smt2")
	fs.Parse(args)
	t0 := time.Now()
	g, err := Load(repoDir())
	if err != nil {
		fmt.Fprintln(os.Stderr, "load:", err)
		os.Exit(2)
	}
	fmt.Printf("loaded in %.1fs; %d contracts, %d specs\n", time.Since(t0).Seconds(), len(g.cs.Funcs), len(g.cs.Specs))
	var re *regexp.Regexp
	if *pat != "" {
		re = regexp.MustCompile(*pat)
	}
	sessions := verifyAll(g, func(c *Contract) bool { return re == nil || re.MatchString(c.Func) }, nil, SolverCfg{TimeoutMs: *timeout, WorkDir: os.TempDir()})
	total, ok := 0, 0
	for _, s := range sessions {
		if *dump != "" {
			os.MkdirAll(*dump, 0o755)
			sc, _ := s.script(nil, *timeout, false)
			os.WriteFile(*dump+"/"+sanitize(s.Func)+".smt2", []byte(sc), 0o644)
		}
		if s.Trusted {
			if *verbose {
				fmt.Printf("TRUSTED  %s\n", s.Func)
			}
			continue
		}
		if s.Unsup != "" {
			fmt.Printf("UNSUP    %s: %s\n", s.Func, s.Unsup)
			continue
		}
		bad := 0
		for qi, ob := range s.Obligs {
			if *query != "" && strings.Contains(ob.Name, *query) {
				os.WriteFile(fmt.Sprintf("/tmp/q_%d.smt2", qi), []byte(s.standalone(ob, false, true)), 0o644)
				fmt.Printf("    wrote /tmp/q_%d.smt2 for %s\n", qi, ob.Name)
			}
			total++
			exp := "unsat"
			if ob.Cover || ob.Canary {
				exp = "sat"
			}
			if ob.Result == exp || (ob.Cover && ob.Result == "inconclusive") {
				ok++
			} else {
				bad++
			}
		}
		fmt.Printf("%-8s %s: %d obligations, %d failed\n", map[bool]string{true: "OK", false: "FAIL"}[bad == 0], s.Func, len(s.Obligs), bad)
		for _, ob := range s.Obligs {
			exp := "unsat"
			if ob.Cover || ob.Canary {
				exp = "sat"
			}
			if *verbose || (ob.Result != exp && !(ob.Cover && ob.Result == "inconclusive")) {
				fmt.Printf("    %-7s %-50s [%s] %s:%d  %s {%s %dms}\n", ob.Result, strings.TrimPrefix(ob.Name, s.Func+"/"), strings.Join(ob.Tags, ","), shortFile(ob.Pos.Filename), ob.Pos.Line, ob.Detail, ob.Solver, ob.Ms)
				if ob.Result == "error" {
					fmt.Printf("        %s\n", ob.Model)
				}
			}
		}
	}
	fmt.Printf("%d/%d obligations discharged in %.1fs (solver %.1fs) wins=%v\n", ok, total, time.Since(t0).Seconds(), solverSeconds, solverWins)
	var tr []string
	for k := range g.trustedUsed {
		tr = append(tr, k)
	}
	sort.Strings(tr)
	if *verbose {
		fmt.Println("trusted:", tr)
	}
}

func shortFile(f string) string {
	return strings.TrimPrefix(f, repoDir()+"/")
}

