package main

import (
	"fmt"
	"go/ast"
	"go/constant"
	"go/token"
	"go/types"
	"os"
	"path/filepath"
	"sort"
	"strings"

	"golang.org/x/tools/go/packages"
	"golang.org/x/tools/go/ssa"
	"golang.org/x/tools/go/ssa/ssautil"
)

const modPath = "github.com/cloudspannerecosystem/memefish"

type Gen struct {
	prog        *ssa.Program
	pkgs        []*packages.Package
	spkgs       map[string]*ssa.Package // by short name: memefish, ast, token, char
	cs          *ContractSet
	leafCache   map[string][]Leaf
	leafSorts   map[string]Sort
	leafRef     map[string]bool
	tags        map[string]int
	tagTypes    []types.Type
	funcs       map[string]*ssa.Function // contract name -> function
	inlined     map[string]bool // schema-only functions verified as part of their callers (inline fallback)
	trustedUsed map[string]bool
	uses        map[string]map[string]bool // caller contract -> callee contracts used
	keywordSet  []string
	ninfo       map[string]*nodeInfo
	sinfo       map[string]*structInfo
	exprTypes   map[string]bool
	positions   bool // ghost positions enabled
	repo        string
}

func Load(repo string) (*Gen, error) {
	loadNeverAssume()
	loadSigs()
	cfg := &packages.Config{Mode: packages.LoadAllSyntax, Dir: repo, BuildFlags: []string{"-tags=verif"},
		Env: append(os.Environ(), "GOFLAGS=-mod=mod", "GOPROXY=off", "GOSUMDB=off", "GOTOOLCHAIN=local")}
	pkgs, err := packages.Load(cfg, "./", "./ast", "./token", "./char")
	if err != nil {
		return nil, err
	}
	for _, p := range pkgs {
		for _, e := range p.Errors {
			return nil, fmt.Errorf("package %s: %v", p.PkgPath, e)
		}
	}
	prog, spkgs := ssautil.AllPackages(pkgs, ssa.GlobalDebug)
	prog.Build()
	g := &Gen{prog: prog, pkgs: pkgs, spkgs: map[string]*ssa.Package{}, leafCache: map[string][]Leaf{}, leafSorts: map[string]Sort{}, leafRef: map[string]bool{},
		tags: map[string]int{}, funcs: map[string]*ssa.Function{}, trustedUsed: map[string]bool{}, uses: map[string]map[string]bool{}, repo: repo}
	for _, sp := range spkgs {
		if sp != nil {
			g.spkgs[sp.Pkg.Name()] = sp
		}
	}
	// contract files
	var files []string
	for _, pat := range []string{"verif_*.go", "ast/verif_*.go", "token/verif_*.go", "char/verif_*.go"} {
		m, _ := filepath.Glob(filepath.Join(repo, pat))
		files = append(files, m...)
	}
	if extra := os.Getenv("VERIF_EXTRA_CONTRACTS"); extra != "" {
		files = append(files, strings.Split(extra, ":")...)
	}
	cs, err := LoadContracts(files)
	if err != nil {
		return nil, err
	}
	g.cs = cs
	// index functions by contract name
	for fn := range ssautil.AllFunctions(prog) {
		if fn.Pkg == nil && fn.Object() == nil {
			continue
		}
		g.funcs[g.funcName(fn)] = fn
	}
	g.loadKeywords()
	g.positions = os.Getenv("VERIF_NOPOS") == ""
	// instantiate schemas / merge inherited clauses for every function of the module
	for name, fn := range g.funcs {
		if fn.Pkg != nil && strings.HasPrefix(fn.Pkg.Pkg.Path(), modPath) {
			g.cs.forFunc(name)
		}
	}
	for name := range g.cs.Funcs {
		g.cs.forFunc(name)
	}
	return g, nil
}

// funcName: the name used in contract files.
//   memefish.(*Lexer).skipN   char.IsDigit   token.(*File).init   unicode/utf8.DecodeRuneInString
func (g *Gen) funcName(fn *ssa.Function) string {
	var pkgPath, pkgName string
	if fn.Pkg != nil {
		pkgPath, pkgName = fn.Pkg.Pkg.Path(), fn.Pkg.Pkg.Name()
	} else if fn.Object() != nil && fn.Object().Pkg() != nil {
		pkgPath, pkgName = fn.Object().Pkg().Path(), fn.Object().Pkg().Name()
	}
	prefix := pkgPath
	if strings.HasPrefix(pkgPath, modPath) {
		prefix = pkgName
	}
	name := fn.Name()
	if fn.Parent() != nil {
		return g.funcName(fn.Parent()) + "$" + strings.TrimPrefix(name, fn.Parent().Name()+"$")
	}
	if recv := fn.Signature.Recv(); recv != nil {
		rt := recv.Type()
		star := ""
		if pt, ok := rt.(*types.Pointer); ok {
			star = "*"
			rt = pt.Elem()
		}
		tn := rt.String()
		if n, ok := rt.(*types.Named); ok {
			tn = n.Obj().Name()
		}
		if star != "" {
			return fmt.Sprintf("%s.(*%s).%s", prefix, tn, name)
		}
		return fmt.Sprintf("%s.%s.%s", prefix, tn, name)
	}
	return prefix + "." + name
}

func (g *Gen) contractFor(fn *ssa.Function) *Contract {
	if fn.Origin() != nil {
		fn = fn.Origin()
	}
	if g.inlined[g.funcName(fn)] {
		return nil // verified as part of its callers (see cmdCheck: inline fallback)
	}
	return g.cs.forFunc(g.funcName(fn))
}

func (g *Gen) invokeContract(cc *ssa.CallCommon) *Contract {
	it := cc.Value.Type()
	name := "iface " + typeTagName(it) + "." + cc.Method.Name()
	if c, ok := g.cs.Funcs[name]; ok {
		return c
	}
	// by the interface in which the method is declared
	if recv := cc.Method.Type().(*types.Signature).Recv(); recv != nil {
		name = "iface " + typeTagName(recv.Type()) + "." + cc.Method.Name()
		if c, ok := g.cs.Funcs[name]; ok {
			return c
		}
	}
	return nil
}

func (g *Gen) noteUse(caller, callee *Contract) {
	if caller == nil || callee == nil {
		return
	}
	if g.uses[caller.Func] == nil {
		g.uses[caller.Func] = map[string]bool{}
	}
	g.uses[caller.Func][callee.Func] = true
	if callee.Trusted {
		g.trustedUsed[callee.Func] = true
	}
}

func (g *Gen) typeTag(t types.Type) int {
	k := typeTagName(t)
	if id, ok := g.tags[k]; ok {
		return id
	}
	id := len(g.tags) + 1
	g.tags[k] = id
	g.tagTypes = append(g.tagTypes, t)
	return id
}

func (g *Gen) tagByName(n string) (int, bool) {
	// make sure all named types of the module are registered
	g.registerModuleTypes()
	id, ok := g.tags[n]
	if !ok {
		// a named type of an imported package (e.g. *bytes.Buffer)
		if t := g.namedTypeByName(strings.TrimPrefix(n, "*")); t != nil {
			if strings.HasPrefix(n, "*") {
				return g.typeTag(types.NewPointer(t)), true
			}
			return g.typeTag(t), true
		}
	}
	return id, ok
}

// namedTypeByName finds pkg.T among all packages of the program (module packages first).
func (g *Gen) namedTypeByName(tn string) types.Type {
	parts := strings.SplitN(tn, ".", 2)
	if len(parts) != 2 {
		return nil
	}
	for _, sp := range g.spkgs {
		if sp.Pkg.Name() == parts[0] {
			if obj := sp.Pkg.Scope().Lookup(parts[1]); obj != nil {
				return obj.Type()
			}
		}
	}
	var found types.Type
	for _, sp := range g.prog.AllPackages() {
		if sp.Pkg.Name() == parts[0] {
			if obj, ok := sp.Pkg.Scope().Lookup(parts[1]).(*types.TypeName); ok {
				if found != nil && !types.Identical(found, obj.Type()) {
					return nil // ambiguous package name
				}
				found = obj.Type()
			}
		}
	}
	return found
}

var registered bool

func (g *Gen) registerModuleTypes() {
	if registered {
		return
	}
	registered = true
	var names []string
	byName := map[string]types.Type{}
	for _, sp := range g.spkgs {
		for _, m := range sp.Members {
			if tn, ok := m.(*ssa.Type); ok {
				t := tn.Type()
				if _, isIface := t.Underlying().(*types.Interface); isIface {
					continue
				}
				for _, tt := range []types.Type{t, types.NewPointer(t)} {
					n := typeTagName(tt)
					names = append(names, n)
					byName[n] = tt
				}
			}
		}
	}
	sort.Strings(names)
	for _, n := range names {
		g.typeTag(byName[n])
	}
}

func (g *Gen) implementers(iface types.Type) []types.Type {
	g.registerModuleTypes()
	it := iface.Underlying().(*types.Interface)
	var out []types.Type
	for _, t := range g.tagTypes {
		if types.Implements(t, it) {
			out = append(out, t)
		}
	}
	return out
}

func (g *Gen) loadKeywords() {
	// token.Keywords is a []TokenKind composite literal of string constants; token.init copies it into
	// KeywordsMap (trusted: KeywordsMap == set(Keywords), the map is never written afterwards — C18 frames).
	for _, p := range g.pkgs {
		if p.Name != "token" {
			continue
		}
		for _, f := range p.Syntax {
			for _, d := range f.Decls {
				gd, ok := d.(*ast.GenDecl)
				if !ok || gd.Tok != token.VAR {
					continue
				}
				for _, sp := range gd.Specs {
					vs := sp.(*ast.ValueSpec)
					if len(vs.Names) != 1 || vs.Names[0].Name != "Keywords" || len(vs.Values) != 1 {
						continue
					}
					cl, ok := vs.Values[0].(*ast.CompositeLit)
					if !ok {
						continue
					}
					for _, e := range cl.Elts {
						tv, ok := p.TypesInfo.Types[e]
						if ok && tv.Value != nil && tv.Value.Kind() == constant.String {
							g.keywordSet = append(g.keywordSet, constant.StringVal(tv.Value))
						}
					}
				}
			}
		}
	}
}

// keywordMember: key is an element of token.Keywords (exact, by content).
func (fx *fnExec) keywordMember(key StrV) string {
	if len(fx.g.keywordSet) == 0 {
		panic(unsupported("token.Keywords literal not found"))
	}
	if t, ok := fx.kwCache[key]; ok {
		return t
	}
	var alts []string
	for _, kw := range fx.g.keywordSet {
		alts = append(alts, fx.strEq(key, fx.strLit(kw)))
	}
	t := fx.s.define("iskeyword", SBool, or(alts...))
	if fx.kwCache == nil {
		fx.kwCache = map[StrV]string{}
	}
	fx.kwCache[key] = t
	return t
}

// ---- verifying one function

func (g *Gen) Verify(c *Contract) (s *Session) {
	fn := g.funcs[c.Func]
	s = NewSession(c.Func)
	if c.Trusted {
		s.Trusted = true
		return s
	}
	if fn == nil {
		s.Unsup = "function not found in the program"
		return s
	}
	defer func() {
		if r := recover(); r != nil {
			switch e := r.(type) {
			case unsupported:
				s.Unsup = string(e)
			case contractErr:
				s.Unsup = e.Error()
				if os.Getenv("VERIF_DEBUG") != "" {
					panic(r)
				}
			default:
				panic(r)
			}
		}
	}()
	fx := &fnExec{g: g, s: s, fn: fn, c: c, boxed: map[string]TV{}, strLits: map[string]StrV{}, penv: map[string]TV{}, lets: map[string]TV{}}
	fr := g.newFrame(fx, fn, c)
	fr.top = true
	st := &State{heap: map[string]string{}, now: s.decl("now0", SInt), reach: "true"}
	fx.pre = st.clone()
	// parameters
	for _, p := range fn.Params {
		v := fr.freshVal("p!"+p.Name(), p.Type())
		fr.vals[p] = v
		fr.assumeTypeFacts(st, v, p.Type())
		fx.penv[p.Name()] = TV{v, p.Type()}
		fx.noteObj(v)
		fx.noteNodeRefs(v, p.Type())
		fr.names[p.Name()] = append(fr.names[p.Name()], p)
	}
	if fn.Signature.Recv() != nil && len(fn.Params) > 0 {
		fx.penv["recv"] = fx.penv[fn.Params[0].Name()]
	}
	env := fx.baseEnv(st)
	for _, l := range c.Lets {
		fx.lets[l.Name] = fx.eval(l.E, env)
		env = fx.baseEnv(st)
	}
	for _, r := range c.Requires {
		s.assert(fx.evalBool(r.E, env))
	}
	if c.Replay != nil {
		if sv, ok := fx.eval(c.Replay, env).V.(StrV); ok {
			s.ReplayStr = &sv
		}
	}
	s.cover("cover", "requires", []string{"vacuity"}, "true", fx.posOf(fn.Pos()), "preconditions are satisfiable")
	exits := fr.run(st)
	fx.finish(fr, exits)
	return s
}

func (fx *fnExec) finish(fr *frame, exits []*Exit) {
	s := fx.s
	c := fx.c
	fn := fx.fn
	var rets []*Exit
	var panics []*Exit
	for _, e := range exits {
		if e.Kind == "return" {
			rets = append(rets, e)
		} else {
			panics = append(panics, e)
		}
	}
	// recover: run deferred closures on exceptional exits
	if len(fr.defers) > 0 {
		var still []*Exit
		for _, e := range panics {
			pv, ok := e.PanicV.(IfV)
			if !ok {
				pv = IfV{s.fresh("panictag", SInt), s.fresh("panicref", SInt)}
			}
			before := len(fr.exits)
			st := e.St.clone()
			rec := fr.runDefers(st, &pv)
			// panics raised by the deferred closures themselves (re-panic)
			for _, ne := range fr.exits[before:] {
				if ne.Kind == "panic" {
					ne.Why = "re-panic in deferred closure after: " + e.Why
					still = append(still, ne)
				}
			}
			if !rec {
				e2 := *e
				e2.St = st
				still = append(still, &e2)
				continue
			}
			// recovered: the function returns its named results
			if fn.Recover != nil {
				sub := *fr
				sub.exits = nil
				sub.execBlock(fn.Recover, st, map[*ssa.BasicBlock][]edge{})
				rets = append(rets, sub.exits...)
			} else {
				var rs []Val
				for i := 0; i < fn.Signature.Results().Len(); i++ {
					rs = append(rs, fx.g.zero(fn.Signature.Results().At(i).Type()))
				}
				rets = append(rets, &Exit{Kind: "return", St: st, Results: rs})
			}
		}
		panics = still
	}
	// exceptional exits must be allowed by the contract
	preEnv := fx.baseEnv(fx.pre)
	allowed := "false"
	switch c.PanicKind {
	case "always":
		allowed = "true"
	case "when":
		allowed = fx.evalBool(c.PanicWhen.E, preEnv)
	}
	for _, e := range panics {
		tags := append([]string{"panic"}, fr.safetyTags()...)
		goal := allowed
		detail := e.Why
		if e.Why == "panic statement" {
			// only *Error values may be thrown
			iv, ok := e.PanicV.(IfV)
			errTag, has := fx.g.tagByName("*memefish.Error")
			if !ok || !has {
				goal = "false"
				detail = "panic with a non-*Error value"
			} else {
				goal = and(allowed, eq(iv.Tag, num(int64(errTag))), not(eq(iv.Ref, "0")))
			}
		}
		s.oblig("panic-free", "", tags, e.St.reach, goal, fx.posOf(e.Pos), detail)
	}
	if len(rets) == 0 {
		if c.PanicKind != "always" && len(c.Ensures) > 0 {
			s.comment("function has no normal exit")
		}
		return
	}
	for _, e := range rets {
		fx.checkPost(e)
	}
}

// checkPost emits the postcondition obligations for one normal exit.
func (fx *fnExec) checkPost(e *Exit) {
	if e.Checked {
		return
	}
	e.Checked = true
	s, c, fn := fx.s, fx.c, fx.fn
	rt := fn.Signature.Results()
	final := e.St
	env := fx.baseEnv(final)
	if e.Fr != nil && e.Blk != nil {
		env.fr = e.Fr
		env.at = e.Blk
		env.atEnd = true
	}
	switch rt.Len() {
	case 0:
	case 1:
		bindResults(env, rt, e.Results[0])
	default:
		bindResults(env, rt, TupleV{V: e.Results})
	}
	suffix := ""
	if fx.nret > 0 {
		suffix = fmt.Sprintf("@r%d", fx.nret)
	}
	fx.nret++
	if c.PanicKind == "always" {
		s.oblig("post", "never-returns"+suffix, fx.topSafety(), final.reach, "false", fx.posOf(e.Pos), "function declared `panics always` has a normal exit")
	}
	if os.Getenv("VERIF_PFDEBUG") != "" && len(e.Results) == 1 {
		// diagnosis aid: the conjuncts of pf(result) as separate (untracked) obligations
		if ref, _, _, ok := refOf(e.Results[0]); ok {
			type cand struct{ ht, guard string }
			var cands []cand
			switch x := e.Results[0].(type) {
			case PtrV:
				cands = append(cands, cand{x.HT, "true"})
			case IfV:
				if rt != nil && rt.Len() == 1 {
					for _, ct := range fx.g.implementers(rt.At(0).Type()) {
						if pt, ok := ct.(*types.Pointer); ok {
							cands = append(cands, cand{fx.g.heapTypeName(pt.Elem()), eq(x.Tag, num(int64(fx.g.typeTag(ct))))})
						}
					}
				}
			}
			for _, cd := range cands {
				if _, _, _, ok := fx.posInv(final, cd.ht, ref); ok {
					parts, desc := fx.lastPFParts, fx.lastPFDesc
					for i := range parts {
						s.oblig("pfdebug", fmt.Sprintf("%s.%d%s", cd.ht, i, suffix), []string{"debug"}, and(final.reach, cd.guard), parts[i], fx.posOf(e.Pos), cd.ht+": "+desc[i]).NoAssume = true
					}
				}
			}
		}
	}
	for k, en := range c.Ensures {
		label := en.Label
		if label == "" {
			label = fmt.Sprint(k)
		}
		site := suffix
		if site == "" {
			site = "@r0"
		}
		reason, skip := fx.g.cs.Unproved[c.Func][label]
		if !skip {
			// an entry may name one return site only: LABEL@rN (N = 0 for the first return in SSA order)
			reason, skip = fx.g.cs.Unproved[c.Func][label+site]
		}
		if skip {
			s.Assumed = appendUnique(s.Assumed, fmt.Sprintf("%s/post:%s is assumed by callers but not proved (%s)", c.Func, label, reason))
			continue
		}
		pob := s.oblig("post", label+suffix, c.tagsFor(en), final.reach, fx.evalBool(en.E, env), fx.posOf(e.Pos), en.Src)
		pob.Explicit = len(en.Tags) > 0
	}
}

func (fx *fnExec) topSafety() []string {
	if fx.fn.Pkg != nil && fx.fn.Pkg.Pkg.Name() == "ast" {
		return []string{"C04", "safety"}
	}
	return safetyTags
}

func (g *Gen) schemaByName(n string) *Schema {
	for _, sc := range g.cs.Schemas {
		if sc.Name == n {
			return sc
		}
	}
	return nil
}

// satisfiesSchema: the contract of a method passed as a function argument is at least as strong as
// the schema the callee assumes for its parameter.
func (g *Gen) satisfiesSchema(c *Contract, schema string) bool {
	if c == nil {
		return false
	}
	switch {
	case c.FromSchema == schema:
		return schema != "recovering" || c.PanicKind == "never"
	case schema == "recovering":
		return c.FromSchema == "parser" && c.PanicKind == "never"
	case schema == "parser":
		return c.FromSchema == "recovering"
	case schema == "parseropt":
		return c.FromSchema == "parser" || c.FromSchema == "recovering" || c.FromSchema == "parsernp"
	}
	return false
}

func appendUnique(xs []string, x string) []string {
	for _, y := range xs {
		if y == x {
			return xs
		}
	}
	return append(xs, x)
}

// inlinable: the body can be executed in place at a call site (see inlineStatic).
func (g *Gen) inlinable(fn *ssa.Function) bool {
	if fn == nil || len(fn.Blocks) == 0 {
		return false
	}
	for _, b := range fn.Blocks {
		for _, in := range b.Instrs {
			switch x := in.(type) {
			case *ssa.Defer, *ssa.Go, *ssa.Range, *ssa.Next, *ssa.Select:
				return false
			case ssa.CallInstruction:
				if x.Common().StaticCallee() == fn {
					return false
				}
			}
		}
		// a back edge means a loop
		for _, succ := range b.Succs {
			if succ.Dominates(b) {
				return false
			}
		}
	}
	return true
}

// onlyCalledStatically: the function is never used as a value (method value passed to a list helper,
// deferred closure): such uses need its contract.
func (g *Gen) onlyCalledStatically(name string) bool {
	fn := g.funcs[name]
	if fn == nil {
		return false
	}
	refs := fn.Referrers()
	_ = refs
	for _, sp := range g.spkgs {
		for _, m := range sp.Members {
			if !g.usesOnlyAsCallee(m, fn) {
				return false
			}
		}
	}
	return true
}

func (g *Gen) usesOnlyAsCallee(m ssa.Member, target *ssa.Function) bool {
	var fns []*ssa.Function
	switch x := m.(type) {
	case *ssa.Function:
		fns = append(fns, x)
	case *ssa.Type:
		for _, t := range []types.Type{x.Type(), types.NewPointer(x.Type())} {
			ms := g.prog.MethodSets.MethodSet(t)
			for i := 0; i < ms.Len(); i++ {
				if f := g.prog.MethodValue(ms.At(i)); f != nil {
					fns = append(fns, f)
				}
			}
		}
	}
	seen := map[*ssa.Function]bool{}
	var walk func(f *ssa.Function) bool
	walk = func(f *ssa.Function) bool {
		if f == nil || seen[f] {
			return true
		}
		seen[f] = true
		for _, b := range f.Blocks {
			for _, in := range b.Instrs {
				for _, op := range in.Operands(nil) {
					if op == nil || *op == nil {
						continue
					}
					switch v := (*op).(type) {
					case *ssa.Function:
						if v == target {
							// fine only as the callee of a call instruction
							ci, isCall := in.(ssa.CallInstruction)
							if !isCall || ci.Common().Value != ssa.Value(v) {
								return false
							}
						}
					case *ssa.MakeClosure:
						if fn2, ok := v.Fn.(*ssa.Function); ok {
							if fn2 == target || (fn2.Synthetic != "" && fn2.Object() == target.Object()) {
								return false
							}
						}
					}
				}
			}
		}
		for _, af := range f.AnonFuncs {
			if !walk(af) {
				return false
			}
		}
		return true
	}
	for _, f := range fns {
		if !walk(f) {
			return false
		}
	}
	return true
}
