#!/bin/bash
# validate_seeded.sh <out-dir> <ID> <variant>: confirms a candidate breaking change in a scratch worktree of /repo HEAD:
#   suite green with the change, demo red with the change, demo green without it. On success copies it to /verif/seeded/<ID>-<variant>/.
export GOFLAGS=-mod=mod GOPROXY=off GOSUMDB=off GOTOOLCHAIN=local
out=$1; id=$2; v=$3
wt=$(mktemp -d /tmp/seedwt.XXXXXX)
trap 'git -C /repo worktree remove --force "$wt" >/dev/null 2>&1; rm -rf "$wt"' EXIT
git -C /repo worktree add -q --detach "$wt" HEAD || exit 2
cd "$wt" || exit 2
demo=$out/${v}_demo_test.go
place=$(head -3 "$demo" | grep -o 'place in: *[^ ]*' | head -1 | sed 's/place in: *//')
[ -z "$place" ] && place=/
place=${place#/}; place=${place%/}
dst="$wt/${place:+$place/}zz_seed_demo_test.go"
# 1. demo passes without the change
cp "$demo" "$dst"
if ! go test -vet=off -count=1 -timeout 120s "./${place}" -run 'Demo|C[0-9][0-9]' >/tmp/seed_pre.log 2>&1; then echo "$id-$v: REJECT demo fails on the unchanged tree"; tail -5 /tmp/seed_pre.log; exit 1; fi
rm -f "$dst"
# 2. change applies, builds, suite green
git apply "$out/$v.diff" || { echo "$id-$v: REJECT patch does not apply"; exit 1; }
go build ./... >/tmp/seed_build.log 2>&1 || { echo "$id-$v: REJECT does not build"; exit 1; }
if ! go test -vet=off -count=1 -timeout 300s ./... >/tmp/seed_suite.log 2>&1; then echo "$id-$v: REJECT suite fails with the change"; grep -E "^(---|FAIL)" /tmp/seed_suite.log | head -5; exit 1; fi
# 3. demo fails with the change
cp "$demo" "$dst"
if go test -vet=off -count=1 -timeout 120s "./${place}" -run 'Demo|C[0-9][0-9]' >/tmp/seed_post.log 2>&1; then echo "$id-$v: REJECT demo passes with the change"; exit 1; fi
mkdir -p /verif/seeded/$id-$v
cp "$out/$v.diff" /verif/seeded/$id-$v/patch.diff
cp "$demo" /verif/seeded/$id-$v/demo_test.go
python3 - "$id" "$v" "$out" "$place" <<'PY'
import json,sys
id,v,out,place=sys.argv[1:5]
txt=open(f"{out}/{v}.txt").read()
json.dump({"property":id,"variant":v,"demo_package_dir":"/"+place,"description":txt,
 "needs_to_manifest":"see description",
 "confirmed":["demo passes on unchanged tree (go test -run 'Demo|Cxx')","patch applies, go build ./... ok, go test -vet=off -count=1 ./... green with patch","demo fails with patch"],
 "confirmed_by":"tools/validate_seeded.sh in a scratch worktree of /repo HEAD"},open(f"/verif/seeded/{id}-{v}/meta.json","w"),indent=1)
PY
echo "$id-$v: CONFIRMED"
