#!/bin/bash
# run_seeded.sh [<ID>-<v> ...]: apply each seeded change to /repo, run the check of its property
# (and any extra property ids given in $EXTRA), undo the change. Prints one line per (seed, property).
cd /verif || exit 2
seeds=("$@"); [ ${#seeds[@]} -eq 0 ] && seeds=($(ls seeded | grep -E '^C[0-9]+-[a-z]$'))
claimed=$(python3 -c "import json;print(' '.join(c['property_id'] for c in json.load(open('/verif/MANIFEST.json'))['checks']))")
for s in "${seeds[@]}"; do
  prop=${s%-*}
  if ! git -C /repo diff --quiet; then echo "refusing: /repo has local changes"; exit 2; fi
  git -C /repo apply /verif/seeded/$s/patch.diff || { echo "$s: patch does not apply"; continue; }
  for p in $prop $EXTRA; do
    case " $claimed " in *" $p "*) ;; *) echo "$s $p: not claimed"; continue;; esac
    out=$(./check $p quick 2>&1); rc=$?
    nv=$(echo "$out" | grep -c '^VIOLATION')
    first=$(echo "$out" | grep -A1 '^VIOLATION' | sed -n 2p | cut -c1-160)
    echo "$s $p: exit=$rc violations=$nv ${first}"
  done
  git -C /repo checkout -- . ; git -C /repo clean -fdq -- . ':!verif_contracts*' >/dev/null 2>&1
done
git -C /verif checkout -- evidence 2>/dev/null
