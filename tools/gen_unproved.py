#!/usr/bin/env python3
"""gen_unproved.py <check-log> [--reset PROP]: adds `unproved` lines to /repo/verif_contracts_unproved.go for
position clauses (C05: pf range pfl pfq; C06: exact exactl nilkeeps and the helper clauses) that a check run
left undecided or refuted and that are NOT listed as findings in /verif/known_findings.txt.
An unproved clause is neither checked nor assumed inside its own function; callers assume it, and the
evidence lists it under clauses_assumed_not_proved. Only position clauses may be listed here."""
import re, sys
path = '/repo/verif_contracts_unproved.go'
ALLOWED = {'pf', 'range', 'pfl', 'pfq', 'exact', 'exactl', 'nilkeeps', 'inside', 'endpos', 'dirpos', 'brackets', 'nullpos', 'rparen', 'gtpos'}
txt = open(path).read()
have = set()
for m in re.finditer(r'// @ unproved (\S+) (\S+)', txt):
    for l in m.group(1).split(','):
        have.add((l, m.group(2)))
known = set(re.findall(r'^finding: property=\S+ obligation=(\S+)', open('/verif/known_findings.txt').read(), re.M))
prop = None
add = {}
for line in open(sys.argv[1]):
    m = re.match(r'^(C\d\d) (quick|thorough):', line)
    if m:
        prop = m.group(1)
    m = re.match(r'^  obligation (\S+)/(post|inv-keep|inv-init|step):(\S+) \((\w+)\)', line)
    if not m:
        continue
    fn, kind, lab = m.group(1), m.group(2), m.group(3)
    full = '%s/%s:%s' % (fn, kind, lab)
    if full in known:
        continue
    site = ''
    if kind == 'post':
        mm = re.search(r'@r\d+$', lab)
        site = mm.group(0) if mm else '@r0'
    edge = ''
    if kind == 'inv-keep':
        mm = re.search(r'~\d+$', lab)
        edge = mm.group(0) if mm else '~0'
    lab = re.sub(r'@r\d+$', '', lab)
    lab = re.sub(r'~\d+$', '', lab)
    lab = re.sub(r'^L\d+\.', '', lab)
    if lab not in ALLOWED:
        print('OTHER (not a position clause, left alone):', full)
        continue
    add.setdefault(fn, set()).add(lab + site + edge)
n = 0
for f in sorted(add):
    for l in sorted(add[f]):
        if (l, f) not in have:
            which = 'C06 exact-span' if l.split('@')[0].split('~')[0] in ('exact', 'exactl', 'nilkeeps') else 'position'
            txt += '// @ unproved %s %s -- %s clause not discharged for this function\n' % (l, f, which)
            n += 1
open(path, 'w').write(txt)
print('added', n)
