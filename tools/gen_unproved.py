#!/usr/bin/env python3
"""Adds `unproved` lines for C05 position clauses (pf, range, pfl) that fail in /tmp/all_run.txt."""
import re,sys
path='/repo/verif_contracts_unproved.go'
txt=open(path).read()
have=set(re.findall(r'// @ unproved (\S+) (\S+)',txt))
fn=None; add={}
for line in open(sys.argv[1]):
    m=re.match(r'^(FAIL|OK|UNSUP)\s+(\S+?):',line)
    if m: fn=m.group(2); continue
    m=re.match(r'^\s+(sat|unknown|timeout)\s+(\S+)',line)
    if m and fn:
        ob=m.group(2)
        mm=re.match(r'post:(pf|range)(@r\d+)?$',ob) or re.match(r'inv-(?:keep|init):L\d+\.(pfl)(~\d+)?$',ob)
        if mm: add.setdefault(fn,set()).add(mm.group(1))
        else: print("OTHER",fn,ob)
n=0
for f in sorted(add):
    for l in sorted(add[f]):
        if not any(f==hf and l in hl.split(',') for hl,hf in have):
            txt+='// @ unproved %s %s -- C05 position clause not yet discharged for this function\n'%(l,f); n+=1
open(path,'w').write(txt)
print("added",n)
