#!/bin/sh
# runs every claimed check (quick tier unless $1 = thorough) and prints one summary line each
cd /verif
for c in $(python3 -c "import json;print(' '.join(x['property_id'] for x in json.load(open('/verif/MANIFEST.json'))['checks']))"); do
  /usr/bin/time -f "%es" ./check $c ${1:-quick} > /tmp/runall_$c.log 2>&1
  echo "$c exit=$? $(grep -E "^$c (quick|thorough):" /tmp/runall_$c.log) $(grep -c '^VIOLATION' /tmp/runall_$c.log) violations $(tail -1 /tmp/runall_$c.log)"
  grep -A1 "^VIOLATION" /tmp/runall_$c.log | grep obligation | head -5 | cut -c1-200
done
