#!/bin/bash
# run_mut2.sh <dir> : for every *.diff in <dir> (breaking: <ID>-<v>.diff, harmless: benign-N.diff) apply it to a scratch
# worktree of /repo HEAD and run the relevant checks there (VERIF_REPO / VERIF_DIR point away from /repo and /verif).
export GOFLAGS=-mod=mod GOPROXY=off GOSUMDB=off GOTOOLCHAIN=local
dir=$1; shift
vd=$(mktemp -d /tmp/vdir.XXXXXX); mkdir -p $vd/evidence; cp /verif/known_findings.txt /verif/localsigs.json $vd/; cp -r /verif/replay $vd/ 2>/dev/null
for d in $dir/*.diff; do
  n=$(basename $d .diff)
  [ -n "$ONLY" ] && [[ ! "$n" =~ $ONLY ]] && continue
  wt=$(mktemp -d /tmp/seedwt.XXXXXX)
  git -C /repo worktree add -q --detach $wt HEAD || continue
  if ! git -C $wt apply $d 2>/dev/null; then echo "$n: patch does not apply"; git -C /repo worktree remove --force $wt; continue; fi
  case $n in
    benign-*) checks=""
      files=$(grep '^+++ b/' $d | sed 's|+++ b/||')
      for f in $files; do case $f in
        lexer.go) checks="$checks C03 C09 C10 C12 C13 C14 C18";;
        parser.go|parse_helpers.go) checks="$checks C03 C04 C05 C06 C07 C09 C10 C18";;
        split.go) checks="$checks C03 C12 C18";;
        ast/sql.go) checks="$checks C04 C07 C10";;
        ast/walk.go|ast/walk_internal.go) checks="$checks C17 C04";;
        ast/pos.go|ast/ast.go|ast/pos_util.go) checks="$checks C19 C17 C05 C06";;
        token/quote.go) checks="$checks C15 C03";;
        token/file.go) checks="$checks C20 C03 C09";;
        token/*|char/*) checks="$checks C14 C15 C03";;
      esac; done
      checks=$(echo $checks | tr ' ' '\n' | sort -u | tr '\n' ' ');;
    *) checks="${n%-*} $EXTRA";;
  esac
  for c in $checks; do
    out=$(cd /verif && VERIF_REPO=$wt VERIF_DIR=$vd bin/vcgen check $c quick 2>&1); rc=$?
    nv=$(echo "$out" | grep -c '^VIOLATION')
    first=$(echo "$out" | grep -A1 '^VIOLATION' | sed -n 2p | cut -c1-170)
    echo "$n $c: exit=$rc violations=$nv ${first}"
  done
  git -C /repo worktree remove --force $wt
done
rm -rf $vd
