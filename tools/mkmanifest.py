#!/usr/bin/env python3
"""Regenerates /verif/MANIFEST.json from the table below (kept in one place so that it stays valid)."""
import json, subprocess

NA = {
 'C01': '2-run inverse property (parse∘SQL∘parse) over the whole grammar; no single-call contract expresses it and the installed solvers do not do the string/lexing induction (DESIGN §5)',
 'C02': 'needs an independent generator as oracle and a product of parser x printer; translation validation of two programs, not a contract on one function (DESIGN §5)',
 'C08': 'completeness w.r.t. a reference grammar quantifies over derivations; entry-point agreement is 2-run (DESIGN §5)',
 'C11': 'relates three different runs (list parse, split, per-piece parse) (DESIGN §5)',
 'C16': 'metamorphic 2-run property over the whole pipeline (DESIGN §5)',
}
PENDING = 'check not built yet (planned, DESIGN §0); it moves to checks when its obligations discharge on the unchanged tree'

TECH = 'contract-based deductive verification: VCs generated from go/ssa of the real code against //@ contracts, discharged by z3/cvc5'

CHECKS = {
 'C03': dict(
   text='For every function of lexer.go, split.go, token/file.go, char and all 290 functions of parser.go / parse_helpers.go: proof that no runtime panic is possible (every index, slice, nil dereference, type assertion and division is an obligation), that the only panics raised are *Error values and only in functions whose contract says so, that the ten recovery points, parseStatements, NextToken, SplitRawStatements and every public Parse* function let no panic escape (deferred recover closures are executed symbolically on every exceptional exit, with the callee state havocked within its frame), that every loop has a decreasing variant (token position measure; productions used as loop bodies carry a progress postcondition), and that entry points return (node != nil, err is nil or a non-empty MultiError) resp. *Error.',
   note='Not proved: termination of the mutual recursion between productions (only loops carry variants; the recursion measure `token position at entry, static rank` is not mechanised), bounded stack depth and time complexity (deeply nested input makes the recovery handlers re-skip O(n) tokens each; 3*10^6 "[" exhausts the Go stack). Frames of parser functions are stated as `the lexer object p.Lexer points to at entry, or objects allocated during the call`; Lexer clones held by recovering callers are preserved by ground frame instances. Trusted: fmt.*, strings.*, strconv.ParseUint, utf8.*, unicode.IsSpace, token.QuoteSQLIdent, ast Pos()/End() (verified separately under C19).',
   ref='§4.C03'),
 'C04': dict(
   text='Producer side of SQL()/Pos()/End()/Walk totality: a ghost well-formedness predicate wf per node, defined per node type as `every field that (*T).SQL() dereferences unconditionally (inferred from ast/sql.go) is non-nil, no interface-typed field holds a typed nil, every non-nil child is wf, every element of a node slice is non-nil and wf` (plus two hand-written invariants: DefaultExpr, number literals). Every production of parser.go is proved to return wf nodes (or nil where it is a tryParse), every recovery handler returns a wf Bad* node, every public Parse* returns a non-nil wf node; the invariant is recomputed after each store into a node and unfolded at each field read, so a production that leaves a required field unset on some path fails its `post:wf` obligation. Walk: every node struct has a walkInternal case and children are wrapped by wrapNode/wrapNodes (typed-nil safe), see C17.',
   note='Consumer side not yet under contract: that (*T).SQL() is panic-free under wf_T is what the inference assumes (fields used as recv.F.SQL(), paren(_, recv.F) or recv.F.x are required); exprPrec totality over all Expr implementers and the generic helpers sqlOpt/sqlJoin are not yet verified by the SSA engine. Pos()/End() are nil-safe by construction (wrapNode + nodePos, C19). Hand-built ASTs are outside the property.',
   ref='§4.C04'),
 'C05': dict(
   text='Ghost positions: for every node object the executor keeps ghost.pos/ghost.end equal to the documented position expression of its type over its fields and the ghost positions of its children (agreement of ast/pos.go with the documentation is C19), and a ghost predicate pf = `0 <= pos <= end, every non-nil child is pf and lies inside [pos,end], node-typed fields in declaration order do not overlap (CreateTable exempt), slice elements are pf, ordered, and between the first and the last`. Proved for the productions listed in the evidence (about 250 of 290 functions): the returned node is pf and lies between the first token the production looked at (or the position/node handed in by the caller) and the current token, hence inside the input. Keyword-length arithmetic (End = Pos + n) is discharged against the lexer contract `a keyword or punctuation token is as long as its kind`.',
   note='Functions whose position clauses are not yet discharged are listed one by one in /repo/verif_contracts_unproved.go and in coverage.clauses_assumed_not_proved: for them pf/range is assumed by callers, not proved (no bounded stand-in is substituted). Token alignment (Pos is the start of a token, End the end of one) and `Pos < End` on error-free paths are not stated separately. Mutation of already-built nodes at the five in-place sites is handled by recomputing the ghosts at the store; that no parent holds a stale snapshot is not mechanised.',
   ref='§4.C05'),
 'C07': dict(
   text='(1) exprPrec equals the GoogleSQL precedence table written as spec functions in the contract file, for every node type that implements Expr and every operator constant, and is total over all of them (proved on the real switch). (2) A ghost precedence per expression node (that same table) and, for each precedence-level production parseOr ... parseMulDiv, parseUnary, parseSelector, parseLit, parseNot, parseComparison, the postcondition `the result binds at most at this level and is parenfree`: the left operand of a binary node is at most the operator\'s level, the right operand strictly tighter (left associativity), comparison-family operands strictly below the comparison level (non-associative), operands of unary operators / field and subscript access at most that level; loop invariants carry this through operator chains. (3) Structurally: operator nodes are allocated only inside those productions. Together: on every parser-built tree the parenthesising branch of paren() is dead, and the grouping is the table\'s.',
   note='Not covered: that explicit parentheses always survive as ParenExpr around exactly the parenthesised operand is visible in parseParenExpr but not stated as a clause; that ast/sql.go prints `left op right` and adds parentheses only through paren() is not verified (a printer change that wraps an operand by hand is not detected). The table itself (about 10 lines of //@ spec) is the trusted specification.',
   ref='§4.C07'),
 'C09': dict(
   text='Error contract of the parser: every production leaves len(errors) monotone; lookahead helpers restore the lexer state exactly and leave errors untouched (a lexical error propagates, it is not swallowed); handleError appends exactly one error and every recovery handler goes through it exactly once before building its Bad node (len(errors) == old + 1); every *Error is built from a position pair with 0 <= Pos <= End <= len(input) (precondition of errorfAtToken / errorfAtPosition / panicfAtToken, checked at each of the ~170 call sites, and of File.Position); public Parse* return a nil error iff no error was recorded and the current token is <eof> at len(input), and a MultiError with at least one element otherwise.',
   note='"At least one MultiError element per BadNode in the tree" is proved in the form: each of the four handlers records exactly one error per Bad node it builds and nothing else allocates ast.BadNode (checked syntactically over the SSA); the count over the reachable tree is the sum over handler calls and is not itself mechanised.',
   ref='§4.C09'),
 'C10': dict(
   text='Contracts on the four recovery handlers, on the lexer step they use and on (*BadNode).SQL. Handlers (loop invariants, all inputs, all iterations): BadNode.Tokens are clones of the tokens that were current, in order; each lies inside the input, has Raw of the length of its range and (for every kind but the split ">") Raw is the slice input[Pos:End]; consecutive tokens do not overlap, and the later one records leading blank space or comments exactly when there is a gap between them (from the new postcondition `gap` proved for Lexer.nextToken); NodePos is the recovery point (the start of the first token), NodeEnd the end of the last one, NodePos == NodeEnd with no tokens; the first token of "\>\>" split by the type handler is not captured and NodeEnd stays before it. To prove the Raw clause, "the current token\'s Raw has the length of its range" (faithful) is carried as a pre/postcondition through all 290 parser functions (the only place it is lost is the ">" left by the type handler\'s split, where only handleParseTypeError, parseType and parseFieldType are marked weak and every caller re-establishes it by consuming that token before the next recovery point is entered). The lexer is rewound to exactly the recovery-point clone (handleError: p.Lexer == l; Lexer.Clone copies pos, Token, lastTokenKind and dotIdent). (*BadNode).SQL: per iteration, the output grows by the token\'s Raw plus one separator exactly when the output is non-empty and the input had a gap before the token (this obligation failed on the pinned tree: fixed defect, see known_findings.txt).',
   note='Not proved: the re-lexing statements themselves (lexing input[NodePos:NodeEnd] or SQL() again yields the same kinds) - they relate a second run of the lexer on a different string and rest on the locality of maximal munch; what is proved are the facts about the recorded tokens that those statements need (exact ranges, order, gaps, separator iff gap). The content of the SQL() result (that the appended bytes are Raw) is by inspection of the concatenation; only lengths are in the obligation. "Not duplicated into enclosing constructs" is proved as: NodePos is the recovery point and every production\'s result lies left of the current token (C05 range clause). Raw of a captured ">" is only known to have length 1.',
   ref='§4.C10'),
 'C12': dict(
   text='Proof, for all inputs and all iterations, of the loop contract of SplitRawStatements over the contract of Lexer.NextToken: every piece is input[Pos:End], pieces are in range, strictly ordered and disjoint, every piece but the last ends exactly at a ";" token, the text between two pieces is that ";" plus whitespace only (this clause is the recorded known finding: a comment directly after ";" falls between pieces), the function fails only with the lexer\'s *Error and, when it succeeds, the whole input was lexed to <eof> (so it fails exactly when the lexer fails).',
   note='Rests on the NextToken/nextToken/consumeToken contracts (verified under C13/C03, same engine) and on the trusted contracts of utf8.DecodeRuneInString and unicode.IsSpace. "No piece contains a \';\' token" is proved in the form: each loop iteration handles exactly one token and cuts at every token of kind ";" (s[End]==\';\' for every cut); the token-sequence ghost statement is not mechanised. spaceOnly constrains ASCII bytes only (non-ASCII bytes of the gap are accepted when unicode.IsSpace accepted their rune).',
   ref='§4.C12'),
 'C13': dict(
   text='Proof of the lossless-lexing postcondition of nextToken/NextToken for every buffer and every start offset: trivia and token tile [old pos, new pos) with no gap or overlap; Raw, Space and every comment are the slices of the input at their recorded Pos/End; Space and inter-comment space contain whitespace only; comments are non-empty and closed (or the error is reported); <eof> only at len(input) with empty range; every other token is non-empty; progress on every call. Loop invariants carry the tiling through any number of comments; each consume* helper is verified against its own contract (bounds, advance, termination).',
   note='Stream-level statement (concatenation of all tokens reproduces the input) is the telescoping of the per-call tiling because each call starts at the previous token\'s End (that equality is an invariant wherever streams are consumed: SplitRawStatements loop, checked there). Trusted: utf8.DecodeRuneInString, unicode.IsSpace (ASCII facts), strconv.ParseUint, utf8.EncodeRune, fmt.Sprintf. spaceOnly constrains ASCII bytes. After a lexical error nothing is claimed about the lexer state.',
   ref='§4.C13'),
 'C14': dict(
   text='Proof, per function and for all inputs, of the rows of the GoogleSQL lexical table written as spec functions in the contract files (from the lexical documentation, not from lexer.go): character classes; every punctuation/operator token by maximal munch on its first two bytes; literal prefix matrix (quote, r, b, br, rb in any case; nothing else is a literal prefix); @param / @@ / @; dot followed by digit vs. field dot and the dot-identifier rule; identifier runs are maximal, keywords are exactly the upper-cased members of token.Keywords; illegal first bytes are rejected; the escape table of quoted literals as a per-iteration step contract (plain byte, raw escape pair, one-character escapes with their decoded byte, \\xHH and \\ooo with the decoded value, \\u/\\U only where unicode escapes are allowed and with 4/8 hex digits, every other escape rejected, bare newline only in triple-quoted literals, closing delimiter only at an escape boundary); the number automaton as one transition per iteration plus maximal munch and the "glued identifier" rejection; the four comment openers and their terminators.',
   note='Not proved: the whole-input statement "rejected iff the specification rejects" (needs a recursive reference lexer and induction over tokens); decoded value of \\u/\\U escapes and the surrogate / >10FFFF rejection (strconv.ParseUint and utf8.EncodeRune are trusted with range-only contracts for 4/8 digit input); keyword recognition is proved one way (a keyword kind is the upper-cased spelling of the run and is in token.Keywords), the converse (an identifier is never a keyword spelling) is not. The spec functions (about 40 lines of //@ spec) are the reviewable trusted base. Trusted: token.KeywordsMap == set(token.Keywords literal).',
   ref='§4.C14'),
 'C17': dict(
   text='Per node type (264 obligations): the walkInternal case of *T pushes exactly the exported node-typed fields of T as given by go/types (pointer-to-node-struct, node interface, or slices of those), in reverse declaration order so that the LIFO walk visits them in declaration order, each wrapped by wrapNode/wrapNodes (typed-nil protection) and each labelled with Field(<the name of that same field>); every node struct has a case, there is no default case and no case for a non-node type. A field missing from a case, an extra one, a swapped pair or a wrong Field name falsifies the equality.',
   note='Claimed for the per-type obligations only. Not yet under contract: walkMain (pop / nil-skip / VisitMany + Index(i) in reverse / prune on nil), Preorder early stop; the global depth-first theorem (each reachable node exactly once, parents first, Field/Index chain = real path) is an induction on tree height over the per-type push lists and the walkMain step, on paper. Exactly-once assumes the AST is a tree.',
   ref='§4.C17',
   tech='contract-based deductive verification: per-type verification conditions over ast/walk_internal.go against the field lists from go/types'),
 'C18': dict(
   text='Frame conditions for the sequential and ownership clauses: (1) for every function under contract in the lexer, splitter, token and parser (about 340 functions) every store instruction and every callee write set is proved to stay inside the function\'s modifies clause or to hit an object allocated during the call (`frame` obligations; parser functions: the parser, its error list, the lexer object that is current at entry or lexer copies made during the call, the line table of the File); a store to a package-level variable is a failed obligation by itself; (2) every production returns nodes allocated during the call (freshres), newParser / SplitRawStatements return fresh objects, the public helpers touch nothing but a parser they allocate; (3) structurally, over the SSA of every function of the module (about 1400): no goroutine, channel operation, map iteration, write to a package-level variable or map outside init, and no call into a library package outside a short list of pure ones.',
   note='Race freedom and schedule independence are NOT explored: they follow from disjoint write footprints plus read-only shared state by the meta-argument written in the evidence assumptions; no schedule is run, no race detector. Functions of package ast (SQL(), Pos(), End(), Walk) are covered by the structural scan only (they are not under SSA contracts yet). Determinism of the listed standard-library packages is assumed.',
   ref='§4.C18'),
 'C19': dict(
   text='For each of the 264 node structs, proof (z3, all field valuations) that the body of Pos() and of End() in ast/pos.go, evaluated symbolically with the helper functions replaced by their contracts, denotes the same position as the `pos = ...` / `end = ...` expression in the struct\'s documentation (528 obligations), and that the walkInternal case of the type pushes exactly the exported node-typed fields taken from go/types, reversed, wrapped with wrapNode/wrapNodes and labelled Field(<own name>) (264 obligations, plus: no missing case, no default case, no case for a non-node type).',
   note='The position-language semantics in catalog.go is my reading of the EBNF in the ast package comment and is the trusted spec; "equal" means the same valid position or both invalid. Not covered: byte-for-byte agreement with the repository generators and agreement of the reflection-based interpreter tools/util/poslang with the compiled methods (reflection and code generation are outside the subset) - a consistent change of documentation AND generated code is by construction not a C19 violation (it is caught, if wrong, by the parser-side position properties). Engine: AST-level symbolic evaluation of single-return methods (not go/ssa).',
   ref='§4.C19',
   tech='contract-based deductive verification: per-type verification conditions (generated method body vs. documented position expression) decided by z3; helper functions by contract'),
 'C20': dict(
   text='Proof that File.init builds exactly the table of line starts (lines[0]=0, strictly increasing, every later entry is one past a newline byte, no newline strictly inside a line, sentinel len+1) from the contract of strings.Split; that ResolvePos returns the unique line with lines[line] <= pos < lines[line+1] and column = pos - lines[line] for every 0 <= pos <= len; that File.Position never indexes or slices out of range for 0 <= pos <= end <= len (or an invalid pos/end) and reports those lines/columns.',
   note='"line = number of newline bytes before pos" is proved through the characterisation of the line table (line starts are exactly the positions after newlines, in order); the count itself is not given to the solver. Excerpt text and the "file:line:col" message prefix go through fmt.Sprintf/Fprintf, which are trusted and opaque: that Position.String passes Line+1 and Column+1 is not proved. Trusted: strings.Split contract (parts are the maximal newline-free runs in order), strings.Repeat (requires count >= 0, checked), fmt.*, bytes.Buffer.String.',
   ref='§4.C20'),
}

def main():
    props = [json.loads(l) for l in open('/verif/properties.jsonl')]
    hooks_commits = subprocess.run(['git','-C','/repo','log','--format=%h %s','--grep=verif hook'],capture_output=True,text=True).stdout.strip().split('\n')
    m = {
      'version': 1,
      'setup_cmd': 'cd /verif/vcgen && GOFLAGS=-mod=mod GOPROXY=off GOSUMDB=off GOTOOLCHAIN=local go build -o /verif/bin/vcgen .',
      'hooks': {
        'guard': 'verif',
        'enable': 'contract files verif_contracts*.go carry //go:build verif and contain only comments; the checks read them as text from /repo (go build -tags verif ./... compiles them to nothing)',
        'baseline_off_cmd': 'cd /repo && GOFLAGS=-mod=mod GOPROXY=off GOSUMDB=off GOTOOLCHAIN=local go test -vet=off -count=1 ./...',
        'source_commits': [c.split(' ')[0] for c in hooks_commits if c],
        'add_only': True,
      },
      'engines': [
        {'name': 'vcgen', 'path': '/verif/vcgen', 'serves_properties': sorted(CHECKS), 'kind_free_text': 'verification-condition generator over go/ssa (x/tools v0.29.0) for //@ contracts kept in //go:build verif comment files in /repo; obligations discharged by z3 4.8.12 (incremental), z3 5.1.0 and cvc5 1.0 (raced on anything not unsat)'},
      ],
      'checks': [],
      'not_applicable': [],
      'notes': 'Every check rebuilds its obligations from /repo\'s working tree on each run. exit 0 = all obligations discharged (known findings listed in /verif/known_findings.txt are printed as KNOWN-FINDING); exit 1 = a VIOLATION line per failed obligation; exit 2 = engine error (vacuous contract, canary not refuted, solver error).',
    }
    for p in props:
        pid = p['id']
        if pid in CHECKS:
            c = CHECKS[pid]
            m['checks'].append({
              'property_id': pid,
              'quick_cmd': f'/verif/check {pid} quick',
              'thorough_cmd': f'/verif/check {pid} thorough',
              'evidence_file': f'/verif/evidence/{pid}.json',
              'replay_cmd_template': 'cat {path}',
              'engine': 'vcgen',
              'level_claimed': {'category': 'proof', 'text': c['text'], 'design_ref': 'DESIGN.md ' + c['ref']},
              'level_note': c['note'],
              'technique': c.get('tech', TECH),
            })
        else:
            m['not_applicable'].append({'property_id': pid, 'reason': NA.get(pid, PENDING)})
    json.dump(m, open('/verif/MANIFEST.json','w'), indent=1, ensure_ascii=False)
    print('checks:', [c['property_id'] for c in m['checks']])

main()
